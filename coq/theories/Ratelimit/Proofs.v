(* Theorems about the sequential mirror model of the rate limiter, for all
   arrival histories with monotone int64 times inside one span of 2^62 ns. *)
From WG Require Import Base.Prelude Gen.Constants Ratelimit.Model Ratelimit.Spec.
Local Open Scope Z_scope.

(* ---- the numbers the proofs depend on (regenerated from the code) ---- *)
Lemma consts_ok :
  0 < cost /\ cost < maxTokens /\ maxTokens <= gcTime /\ gcTime < 2^61.
Proof. vm_compute. repeat split; congruence. Qed.

Lemma pow63 : 2^63 = 9223372036854775808. Proof. reflexivity. Qed.
Lemma pow62 : 2^62 = 4611686018427387904. Proof. reflexivity. Qed.
Lemma pow61 : 2^61 = 2305843009213693952. Proof. reflexivity. Qed.
Lemma pow64 : 2^64 = 18446744073709551616. Proof. reflexivity. Qed.

Lemma wrap64_id z : - 2^63 <= z < 2^63 -> wrap64 z = z.
Proof.
  intros H. unfold wrap64. rewrite Z.mod_small; [lia|].
  rewrite pow63, pow64 in *. lia.
Qed.
Lemma sat64_id z : - 2^63 <= z < 2^63 -> sat64 z = z.
Proof. intros H. unfold sat64. lia. Qed.

(* ---- invariant and virtual tokens ---- *)
Definition Ctx (lo now : Z) : Prop := - 2^63 <= lo /\ lo + 2^62 < 2^63 /\ lo <= now <= lo + 2^62.

Definition Good (lo now : Z) (t : table) : Prop :=
  forall a e, t a = Some e -> 0 <= e_tok e <= maxTokens /\ lo <= e_last e <= now.

(* what the bucket of [a] would hold at time [now] *)
Definition vt (t : table) (a : N) (now : Z) : Z :=
  match t a with
  | None => maxTokens
  | Some e => Z.min maxTokens (e_tok e + (now - e_last e))
  end.

Lemma good_mono lo now now' t : Good lo now t -> now <= now' -> Good lo now' t.
Proof. intros G H a e E. apply G in E. lia. Qed.

Lemma good_empty lo now : Good lo now tempty.
Proof. intros a e E. discriminate. Qed.

Lemma vt_range lo now t a now' : Good lo now t -> now <= now' -> 0 <= vt t a now' <= maxTokens.
Proof.
  intros G H. unfold vt. pose proof consts_ok.
  destruct (t a) as [e|] eqn:E; [apply G in E|]; lia.
Qed.

Lemma vt_mono lo now t a n1 n2 : Good lo now t -> now <= n1 <= n2 ->
  vt t a n1 <= vt t a n2 <= vt t a n1 + (n2 - n1).
Proof.
  intros G H. unfold vt. destruct (t a) as [e|] eqn:E; [apply G in E|]; lia.
Qed.

Lemma refill_exact lo now e now' :
  Ctx lo now' -> 0 <= e_tok e <= maxTokens -> lo <= e_last e <= now -> now <= now' ->
  refill e now' = Z.min maxTokens (e_tok e + (now' - e_last e)).
Proof.
  intros (C1 & C2 & C3) Ht Hl Hn. pose proof consts_ok as (K1 & K2 & K3 & K4).
  unfold refill, elapsed. rewrite pow63, pow62, pow61 in *.
  rewrite sat64_id by (rewrite pow63; lia).
  rewrite wrap64_id by (rewrite pow63; lia).
  destruct (maxTokens <? e_tok e + (now' - e_last e)) eqn:E; lia.
Qed.

Lemma keep_exact lo now e now' :
  Ctx lo now' -> lo <= e_last e <= now -> now <= now' ->
  keep e now' = negb (gcTime <? now' - e_last e).
Proof.
  intros (C1 & C2 & C3) Hl Hn. unfold keep, elapsed.
  rewrite pow63, pow62 in *. rewrite sat64_id by (rewrite pow63; lia). reflexivity.
Qed.

(* ---- Allow in terms of virtual tokens ---- *)
Lemma allow_char lo now t b now1 :
  Ctx lo now1 -> Good lo now t -> now <= now1 ->
  let d := cost <? vt t b now1 in
  allow_t t b now1 =
    (put b {| e_last := now1; e_tok := vt t b now1 - (if d then cost else 0) |} t, d).
Proof.
  intros C G Hn. cbv zeta. unfold allow_t, vt. pose proof consts_ok as (K1 & K2 & K3 & K4).
  destruct (t b) as [e|] eqn:E.
  - pose proof (G b e E) as [Ht Hl].
    rewrite (refill_exact lo now e now1 C Ht Hl Hn).
    destruct (cost <? Z.min maxTokens (e_tok e + (now1 - e_last e))); [reflexivity|].
    rewrite Z.sub_0_r. reflexivity.
  - replace (cost <? maxTokens) with true by (symmetry; apply Z.ltb_lt; lia). reflexivity.
Qed.

Lemma vt_put_same b x n1 t now' :
  vt (put b {| e_last := n1; e_tok := x |} t) b now' = Z.min maxTokens (x + (now' - n1)).
Proof. unfold vt, put. rewrite N.eqb_refl. reflexivity. Qed.

Lemma vt_put_other a b e t now' : a <> b -> vt (put b e t) a now' = vt t a now'.
Proof. intros H. unfold vt, put. destruct (N.eqb_spec a b); [contradiction|reflexivity]. Qed.

Lemma good_put lo now t b now1 x :
  Good lo now t -> now <= now1 -> lo <= now1 -> 0 <= x <= maxTokens ->
  Good lo now1 (put b {| e_last := now1; e_tok := x |} t).
Proof.
  intros G Hn Hl Hx a e. unfold put. destruct (N.eqb_spec a b).
  - intros E. inversion E; subst. cbn [e_tok e_last]. lia.
  - intros E. apply G in E. lia.
Qed.

Lemma good_allow lo now t b now1 :
  Ctx lo now1 -> Good lo now t -> now <= now1 -> Good lo now1 (fst (allow_t t b now1)).
Proof.
  intros C G Hn. rewrite (allow_char lo now t b now1 C G Hn). cbn [fst].
  pose proof (vt_range lo now t b now1 G Hn). pose proof consts_ok. destruct C as (C1 & C2 & C3).
  apply good_put with (now := now); auto; try lia.
  destruct (cost <? vt t b now1) eqn:E; [apply Z.ltb_lt in E|apply Z.ltb_ge in E]; lia.
Qed.

Lemma good_cleanup lo now t now1 : Good lo now t -> Good lo now (cleanup_t t now1).
Proof.
  intros G a e. unfold cleanup_t. destruct (t a) as [e'|] eqn:E; [|discriminate].
  destruct (keep e' now1); [|discriminate]. intros H; inversion H; subst. apply (G a e E).
Qed.

(* collection does not change what any bucket would hold later *)
Lemma vt_cleanup lo now t now1 a now' :
  Ctx lo now1 -> Good lo now t -> now <= now1 -> now1 <= now' ->
  vt (cleanup_t t now1) a now' = vt t a now'.
Proof.
  intros C G Hn Hn'. unfold vt, cleanup_t. pose proof consts_ok as (K1 & K2 & K3 & K4).
  destruct (t a) as [e|] eqn:E; [|reflexivity].
  pose proof (G a e E) as [Ht Hl].
  rewrite (keep_exact lo now e now1 C Hl Hn).
  destruct (gcTime <? now1 - e_last e) eqn:El; cbn [negb]; [|reflexivity].
  apply Z.ltb_lt in El. lia.
Qed.

(* ---- lifting to states and runs ---- *)
Lemma step_tbl gc s o :
  tbl (fst (step gc s o)) =
  match o with
  | Arrive a now => fst (allow_t (tbl s) a now)
  | Gc now => if gc then cleanup_t (tbl s) now else tbl s
  end.
Proof.
  destruct o as [a now|now]; cbn [step].
  - unfold allow. destruct (allow_t (tbl s) a now). reflexivity.
  - destruct gc; reflexivity.
Qed.

Lemma step_res gc s o :
  match o with
  | Arrive a now => snd (step gc s o) = Dec (snd (allow_t (tbl s) a now))
  | Gc _ => exists n, snd (step gc s o) = Len n
  end.
Proof.
  destruct o as [a now|now]; cbn [step].
  - unfold allow. destruct (allow_t (tbl s) a now). reflexivity.
  - eexists. reflexivity.
Qed.

Fixpoint endtime (now : Z) (ops : list op) : Z :=
  match ops with
  | [] => now
  | o :: r => endtime (time_of o) r
  end.

Fixpoint bounded (hi : Z) (ops : list op) : Prop :=
  match ops with
  | [] => True
  | o :: r => time_of o <= hi /\ bounded hi r
  end.

Lemma bounded_forall hi ops : Forall (fun o => time_of o <= hi) ops -> bounded hi ops.
Proof. induction 1; cbn; auto. Qed.

Lemma monotone_endtime now ops : monotone now ops -> now <= endtime now ops.
Proof.
  revert now; induction ops as [|o r IH]; intros now M; cbn in *; [lia|].
  destruct M as [H M]. apply IH in M. lia.
Qed.

Definition Base (lo : Z) : Prop := - 2^63 <= lo /\ lo + 2^62 < 2^63.

Lemma ctx_of lo now now1 : Base lo -> lo <= now -> now <= now1 -> now1 <= lo + 2^62 -> Ctx lo now1.
Proof. unfold Base, Ctx. lia. Qed.

(* the invariant is kept along any valid run *)
Lemma good_step lo now gc s o :
  Base lo -> lo <= now -> Good lo now (tbl s) -> now <= time_of o -> time_of o <= lo + 2^62 ->
  Good lo (time_of o) (tbl (fst (step gc s o))).
Proof.
  intros B Hl G Hn Hb. rewrite step_tbl. destruct o as [a n|n]; cbn [time_of] in *.
  - apply good_allow with (now := now); auto. eapply ctx_of; eauto.
  - destruct gc; [apply good_cleanup|]; eapply good_mono; eauto.
Qed.

Lemma good_run lo gc : forall ops now s,
  Base lo -> lo <= now -> Good lo now (tbl s) -> monotone now ops -> bounded (lo + 2^62) ops ->
  Good lo (endtime now ops) (tbl (final (step gc) s ops)).
Proof.
  induction ops as [|o r IH]; intros now s B Hl G M Bd.
  - exact G.
  - destruct M as [Hn M]. destruct Bd as [Hb Bd].
    pose proof (good_step lo now gc s o B Hl G Hn Hb) as G1.
    unfold final in *. cbn [run endtime]. destruct (step gc s o) as [s1 r1]. cbn [fst] in G1.
    specialize (IH (time_of o) s1 B ltac:(lia) G1 M Bd).
    destruct (run (step gc) s1 r). exact IH.
Qed.

(* ================= gc_invisible ================= *)
Definition Same (now : Z) (tg tn : table) : Prop :=
  forall a now', now <= now' -> vt tg a now' = vt tn a now'.

Lemma same_step lo now sg sn o :
  Base lo -> lo <= now -> Good lo now (tbl sg) -> Good lo now (tbl sn) -> Same now (tbl sg) (tbl sn) ->
  now <= time_of o -> time_of o <= lo + 2^62 ->
  decs [snd (step true sg o)] = decs [snd (step false sn o)] /\
  Same (time_of o) (tbl (fst (step true sg o))) (tbl (fst (step false sn o))).
Proof.
  intros B Hl Gg Gn S Hn Hb. rewrite !step_tbl.
  pose proof (step_res true sg o) as Rg. pose proof (step_res false sn o) as Rn.
  destruct o as [a n|n]; cbn [time_of] in *.
  - assert (C : Ctx lo n) by (eapply ctx_of; eauto).
    rewrite Rg, Rn.
    rewrite (allow_char lo now (tbl sg) a n C Gg Hn), (allow_char lo now (tbl sn) a n C Gn Hn).
    cbn [fst snd]. rewrite (S a n Hn). split; [reflexivity|].
    intros b now' Hn'. destruct (N.eq_dec b a) as [->|Hne].
    + rewrite !vt_put_same. reflexivity.
    + rewrite !vt_put_other by exact Hne. apply S. lia.
  - destruct Rg as [ng ->], Rn as [nn ->]. split; [reflexivity|].
    assert (C : Ctx lo n) by (eapply ctx_of; eauto).
    intros b now' Hn'. rewrite (vt_cleanup lo now (tbl sg) n b now' C Gg Hn Hn'). apply S. lia.
Qed.

Lemma decs_cons r rs : decs (r :: rs) = decs [r] ++ decs rs.
Proof. destruct r; reflexivity. Qed.

Lemma gc_invisible_gen lo : forall ops now sg sn,
  Base lo -> lo <= now -> Good lo now (tbl sg) -> Good lo now (tbl sn) -> Same now (tbl sg) (tbl sn) ->
  monotone now ops -> bounded (lo + 2^62) ops ->
  decs (outs (step true) sg ops) = decs (outs (step false) sn ops).
Proof.
  induction ops as [|o r IH]; intros now sg sn B Hl Gg Gn S M Bd; [reflexivity|].
  destruct M as [Hn M]. destruct Bd as [Hb Bd].
  destruct (same_step lo now sg sn o B Hl Gg Gn S Hn Hb) as [Hd S1].
  pose proof (good_step lo now true sg o B Hl Gg Hn Hb) as Gg1.
  pose proof (good_step lo now false sn o B Hl Gn Hn Hb) as Gn1.
  unfold outs in *. cbn [run].
  destruct (step true sg o) as [sg1 rg], (step false sn o) as [sn1 rn]. cbn [fst snd] in *.
  specialize (IH (time_of o) sg1 sn1 B ltac:(lia) Gg1 Gn1 S1 M Bd).
  destruct (run (step true) sg1 r) as [? og], (run (step false) sn1 r) as [? on]. cbn [snd] in *.
  rewrite (decs_cons rg), (decs_cons rn), Hd, IH. reflexivity.
Qed.

Lemma valid_parts lo ops : valid lo ops ->
  Base lo /\ monotone lo ops /\ bounded (lo + 2^62) ops.
Proof. intros (A & B & C & D). repeat split; auto. apply bounded_forall; exact D. Qed.

(* Decisions with any interleaved collection passes = decisions without. *)
Theorem gc_invisible : forall lo ops, valid lo ops ->
  decs (outs (step true) empty ops) = decs (outs (step false) empty ops).
Proof.
  intros lo ops V. destruct (valid_parts lo ops V) as (B & M & Bd).
  apply (gc_invisible_gen lo ops lo empty empty); auto; try lia; try apply good_empty.
  intros a now' _. reflexivity.
Qed.

(* ================= rate_envelope ================= *)
Lemma arrivals_cons o ops r rs :
  arrivals (o :: ops) (r :: rs) = arrivals [o] [r] ++ arrivals ops rs.
Proof. destruct o, r; reflexivity. Qed.

Lemma admitted_app a x y : admitted a (x ++ y) = admitted a x + admitted a y.
Proof. induction x as [|[[b t] d] x IH]; cbn [admitted app]; lia. Qed.

Lemma decs_of_app a x y : decs_of a (x ++ y) = decs_of a x ++ decs_of a y.
Proof.
  induction x as [|[[b t] d] x IH]; cbn [decs_of app]; [reflexivity|].
  destruct (N.eqb b a); cbn [app]; rewrite IH; reflexivity.
Qed.

(* one operation: what it admits of [a] is paid out of [a]'s bucket *)
Lemma pot_step lo now gc s o a :
  Base lo -> lo <= now -> Good lo now (tbl s) -> now <= time_of o -> time_of o <= lo + 2^62 ->
  admitted a (arrivals [o] [snd (step gc s o)]) * cost + vt (tbl (fst (step gc s o))) a (time_of o)
  = vt (tbl s) a (time_of o).
Proof.
  intros B Hl G Hn Hb. rewrite step_tbl. pose proof (step_res gc s o) as R.
  destruct o as [b n|n]; cbn [time_of] in *.
  - assert (C : Ctx lo n) by (eapply ctx_of; eauto).
    rewrite R. rewrite (allow_char lo now (tbl s) b n C G Hn). cbn [fst snd arrivals admitted].
    pose proof (vt_range lo now (tbl s) b n G Hn) as Hr. pose proof consts_ok as K.
    destruct (N.eqb_spec b a) as [->|Hne].
    + rewrite vt_put_same.
      destruct (cost <? vt (tbl s) a n) eqn:E; cbn [andb];
        [apply Z.ltb_lt in E|apply Z.ltb_ge in E]; lia.
    + rewrite vt_put_other by congruence. cbn [andb]. lia.
  - destruct R as [k ->]. cbn [arrivals admitted].
    destruct gc; [|lia].
    assert (C : Ctx lo n) by (eapply ctx_of; eauto).
    rewrite (vt_cleanup lo now (tbl s) n a n C G Hn) by lia. lia.
Qed.

Lemma potential lo gc a : forall ops now s,
  Base lo -> lo <= now -> Good lo now (tbl s) -> monotone now ops -> bounded (lo + 2^62) ops ->
  admitted a (arrivals ops (outs (step gc) s ops)) * cost
    + vt (tbl (final (step gc) s ops)) a (endtime now ops)
  <= vt (tbl s) a now + (endtime now ops - now).
Proof.
  induction ops as [|o r IH]; intros now s B Hl G M Bd.
  - cbn. lia.
  - destruct M as [Hn M]. destruct Bd as [Hb Bd].
    pose proof (pot_step lo now gc s o a B Hl G Hn Hb) as P.
    pose proof (good_step lo now gc s o B Hl G Hn Hb) as G1.
    pose proof (vt_mono lo now (tbl s) a now (time_of o) G ltac:(lia)) as Hm.
    unfold outs, final in *. cbn [run endtime].
    destruct (step gc s o) as [s1 r1]. cbn [fst snd] in *.
    specialize (IH (time_of o) s1 B ltac:(lia) G1 M Bd).
    destruct (run (step gc) s1 r) as [s2 rs]. cbn [fst snd] in *.
    rewrite arrivals_cons, admitted_app. lia.
Qed.

Lemma monotone_app now a b : monotone now (a ++ b) -> monotone now a /\ monotone (endtime now a) b.
Proof.
  revert now; induction a as [|o a IH]; intros now M; cbn in *; [auto|].
  destruct M as [H M]. apply IH in M. tauto.
Qed.
Lemma bounded_app hi a b : bounded hi (a ++ b) -> bounded hi a /\ bounded hi b.
Proof. induction a as [|o a IH]; cbn; [auto|]. intros [H M]. apply IH in M. tauto. Qed.

Lemma endtime_last now ops d : endtime now ops = match ops with [] => now | _ => time_of (List.last ops d) end.
Proof.
  revert now; induction ops as [|o r IH]; intros now; [reflexivity|].
  cbn [endtime]. rewrite IH. destruct r; reflexivity.
Qed.

Lemma arrivals_app a b ra rb : length ra = length a ->
  arrivals (a ++ b) (ra ++ rb) = arrivals a ra ++ arrivals b rb.
Proof.
  revert ra; induction a as [|o a IH]; intros [|r ra] L; try discriminate; [reflexivity|].
  cbn [app]. rewrite (arrivals_cons o (a ++ b)), (arrivals_cons o a), IH by (cbn in L; lia).
  rewrite app_assoc. reflexivity.
Qed.

Lemma skipn_app_len {A} (x y : list A) n : length x = n -> skipn n (x ++ y) = y.
Proof. intros <-. induction x; cbn; auto. Qed.

(* In any window of a history (the operations h2 after any prefix h1, collection
   passes anywhere) the admissions n of one address satisfy
   n * packetCost <= maxTokens + (length of the window in ns). *)
Theorem rate_envelope : forall gc lo h1 h2 a, valid lo (h1 ++ h2) ->
  let rs := outs (step gc) empty (h1 ++ h2) in
  admitted a (arrivals h2 (skipn (length h1) rs)) * cost <= maxTokens + span h2.
Proof.
  intros gc lo h1 h2 a V. cbv zeta.
  destruct (valid_parts lo _ V) as (B & M & Bd).
  apply monotone_app in M. destruct M as [M1 M2]. apply bounded_app in Bd. destruct Bd as [B1 B2].
  rewrite outs_app. rewrite skipn_app_len by apply outs_length.
  pose proof (good_run lo gc h1 lo empty B ltac:(lia) (good_empty lo lo) M1 B1) as G.
  pose proof (monotone_endtime lo h1 M1) as Hl.
  set (s1 := final (step gc) empty h1) in *. set (n1 := endtime lo h1) in *.
  destruct h2 as [|o r]; [cbn; pose proof consts_ok; lia|].
  (* start the window at the time of its first operation *)
  destruct M2 as [Hn M2']. destruct B2 as [Hb B2'].
  assert (G' : Good lo (time_of o) (tbl s1)) by (eapply good_mono; eauto).
  assert (M3 : monotone (time_of o) (o :: r)) by (cbn; split; [lia|exact M2']).
  pose proof (potential lo gc a (o :: r) (time_of o) s1 B ltac:(lia) G' M3 (conj Hb B2')) as P.
  pose proof (vt_range lo (time_of o) (tbl s1) a (time_of o) G' ltac:(lia)) as R0.
  assert (Ge : Good lo (endtime (time_of o) (o :: r)) (tbl (final (step gc) s1 (o :: r))))
    by (apply good_run; [exact B|lia|exact G'|exact M3|exact (conj Hb B2')]).
  pose proof (vt_range lo _ _ a (endtime (time_of o) (o :: r)) Ge ltac:(lia)) as R1.
  unfold span. rewrite (endtime_last (time_of o) (o :: r) o) in *. lia.
Qed.

(* whole history from the empty table: n * cost <= maxTokens + span *)
Corollary rate_envelope_whole : forall gc lo h a, valid lo h ->
  admitted a (arrivals h (outs (step gc) empty h)) * cost <= maxTokens + span h.
Proof. intros gc lo h a V. exact (rate_envelope gc lo [] h a V). Qed.

(* ================= spaced_never_refused ================= *)
Definition SpInv (a : N) (prev : option Z) (now : Z) (t : table) : Prop :=
  forall n, now <= n -> match prev with Some p => p + cost < n | None => True end -> cost < vt t a n.

Lemma spaced_gen lo gc a : forall ops now s prev,
  Base lo -> lo <= now -> Good lo now (tbl s) -> monotone now ops -> bounded (lo + 2^62) ops ->
  SpInv a prev now (tbl s) -> spaced_from a prev ops ->
  Forall (fun d => d = true) (decs_of a (arrivals ops (outs (step gc) s ops))).
Proof.
  induction ops as [|o r IH]; intros now s prev B Hl G M Bd I Sp; [constructor|].
  destruct M as [Hn M]. destruct Bd as [Hb Bd].
  pose proof (good_step lo now gc s o B Hl G Hn Hb) as G1.
  pose proof (step_tbl gc s o) as T. pose proof (step_res gc s o) as R.
  unfold outs in *. cbn [run].
  destruct (step gc s o) as [s1 r1] eqn:Es. cbn [fst snd] in *.
  destruct (run (step gc) s1 r) as [s2 rs] eqn:Er. cbn [snd].
  rewrite arrivals_cons, decs_of_app. apply Forall_app.
  destruct o as [b n|n]; cbn [time_of] in *.
  - assert (C : Ctx lo n) by (eapply ctx_of; eauto).
    rewrite (allow_char lo now (tbl s) b n C G Hn) in T, R. cbn [fst snd] in T, R. subst r1.
    cbn [spaced_from] in Sp. cbn [arrivals decs_of].
    destruct (N.eqb_spec b a) as [->|Hne].
    + destruct Sp as [Sp1 Sp2].
      assert (E : cost < vt (tbl s) a n) by (apply I; [lia|exact Sp1]).
      split.
      * constructor; [apply Z.ltb_lt; exact E|constructor].
      * specialize (IH n s1 (Some n) B ltac:(lia) G1 M Bd). rewrite Er in IH. apply IH; [|exact Sp2].
        intros m Hm Hs. rewrite T, vt_put_same.
        replace (cost <? vt (tbl s) a n) with true by (symmetry; apply Z.ltb_lt; exact E).
        pose proof consts_ok. lia.
    + split; [constructor|].
      specialize (IH n s1 prev B ltac:(lia) G1 M Bd). rewrite Er in IH. apply IH; [|exact Sp].
      intros m Hm Hs. rewrite T, vt_put_other by congruence. apply I; [lia|exact Hs].
  - destruct R as [k ->]. cbn [arrivals decs_of]. split; [constructor|].
    cbn [spaced_from] in Sp.
    specialize (IH n s1 prev B ltac:(lia) G1 M Bd). rewrite Er in IH. apply IH; [|exact Sp].
    intros m Hm Hs. rewrite T. destruct gc.
    + assert (C : Ctx lo n) by (eapply ctx_of; eauto).
      rewrite (vt_cleanup lo now (tbl s) n a m C G Hn Hm). apply I; [lia|exact Hs].
    + apply I; [lia|exact Hs].
Qed.

(* An address whose arrivals are more than packetCost ns apart is never
   refused, whatever the other addresses send and whenever entries are collected. *)
Theorem spaced_never_refused : forall gc lo ops a, valid lo ops -> spaced a ops ->
  Forall (fun d => d = true) (decs_of a (arrivals ops (outs (step gc) empty ops))).
Proof.
  intros gc lo ops a V Sp. destruct (valid_parts lo ops V) as (B & M & Bd).
  apply (spaced_gen lo gc a ops lo empty None); auto; try lia; try apply good_empty.
  intros n _ _. unfold vt, empty, tempty. cbn. pose proof consts_ok. lia.
Qed.

(* ================= per_address_independent ================= *)
Lemma allow_t_local t1 t2 a now : t1 a = t2 a ->
  snd (allow_t t1 a now) = snd (allow_t t2 a now) /\
  fst (allow_t t1 a now) a = fst (allow_t t2 a now) a.
Proof.
  intros E. unfold allow_t. rewrite E. destruct (t2 a) as [e|].
  - destruct (cost <? refill e now); cbn [fst snd]; unfold put; rewrite N.eqb_refl; auto.
  - cbn [fst snd]. unfold put. rewrite N.eqb_refl. auto.
Qed.
Lemma allow_t_other t a b now : a <> b -> fst (allow_t t b now) a = t a.
Proof.
  intros H. unfold allow_t. destruct (t b) as [e|]; [destruct (cost <? refill e now)|];
    cbn [fst]; unfold put; destruct (N.eqb_spec a b); congruence.
Qed.

Lemma independent_gen gc a : forall ops s1 s2, tbl s1 a = tbl s2 a ->
  decs_of a (arrivals ops (outs (step gc) s1 ops)) = decs (outs (step gc) s2 (proj a ops)).
Proof.
  induction ops as [|o r IH]; intros s1 s2 E; [reflexivity|].
  pose proof (step_tbl gc s1 o) as T1. pose proof (step_res gc s1 o) as R1.
  unfold outs in *. cbn [run].
  destruct (step gc s1 o) as [s1' r1] eqn:Es1. cbn [fst snd] in *.
  destruct (run (step gc) s1' r) as [s1'' rs1] eqn:Er1. cbn [snd].
  rewrite arrivals_cons, decs_of_app.
  destruct o as [b n|n]; cbn [proj filter].
  - destruct (N.eqb_spec b a) as [->|Hne].
    + pose proof (step_tbl gc s2 (Arrive a n)) as T2. pose proof (step_res gc s2 (Arrive a n)) as R2.
      cbn [run]. destruct (step gc s2 (Arrive a n)) as [s2' r2] eqn:Es2. cbn [fst snd] in *.
      destruct (allow_t_local (tbl s1) (tbl s2) a n E) as [Hd Ht].
      specialize (IH s1' s2'). rewrite Er1 in IH. cbn [snd] in IH.
      fold (proj a r). destruct (run (step gc) s2' (proj a r)) as [s2'' rs2]. cbn [snd] in *.
      subst r1 r2. cbn [arrivals decs_of decs]. rewrite N.eqb_refl. cbn [app].
      rewrite Hd. f_equal. apply IH. rewrite T1, T2. exact Ht.
    + subst r1. cbn [arrivals decs_of]. destruct (N.eqb_spec b a); [contradiction|]. cbn [app].
      specialize (IH s1' s2). rewrite Er1 in IH. apply IH.
      rewrite T1. rewrite allow_t_other by congruence. exact E.
  - destruct R1 as [k ->]. cbn [arrivals decs_of app].
    pose proof (step_tbl gc s2 (Gc n)) as T2. pose proof (step_res gc s2 (Gc n)) as [k2 R2].
    cbn [run]. destruct (step gc s2 (Gc n)) as [s2' r2] eqn:Es2. cbn [fst snd] in *.
    specialize (IH s1' s2'). rewrite Er1 in IH. cbn [snd] in IH.
    fold (proj a r). destruct (run (step gc) s2' (proj a r)) as [s2'' rs2]. cbn [snd] in *.
    subst r2. cbn [decs]. apply IH. rewrite T1, T2. destruct gc; [|exact E].
    unfold cleanup_t. rewrite E. reflexivity.
Qed.

(* The decisions for one address are those it would get if it were the only
   sender (no assumption on times: Allow reads and writes one key). *)
Theorem per_address_independent : forall gc ops a,
  decs_of a (arrivals ops (outs (step gc) empty ops)) = decs (outs (step gc) empty (proj a ops)).
Proof. intros gc ops a. apply independent_gen. reflexivity. Qed.

(* ================= idle_entries_forgotten ================= *)
(* [la] = last arrival per address so far *)
Definition Seen (now : Z) (la : N -> option Z) (t : table) : Prop :=
  forall a, match la a, t a with
            | None, None => True
            | Some l, Some e => e_last e = l
            | Some l, None => gcTime < now - l
            | None, Some _ => False
            end.

Lemma seen_step lo now la s o :
  Base lo -> lo <= now -> Good lo now (tbl s) -> now <= time_of o -> time_of o <= lo + 2^62 ->
  Seen now la (tbl s) ->
  Seen (time_of o) (fun a => last_arr a [o] (la a)) (tbl (fst (step true s o))).
Proof.
  intros B Hl G Hn Hb S a. rewrite step_tbl. specialize (S a).
  destruct o as [b n|n]; cbn [time_of last_arr] in *.
  - assert (C : Ctx lo n) by (eapply ctx_of; eauto).
    rewrite (allow_char lo now (tbl s) b n C G Hn). cbn [fst]. unfold put.
    rewrite (N.eqb_sym a b). destruct (N.eqb_spec b a) as [->|Hne].
    + reflexivity.
    + destruct (la a), (tbl s a); auto. lia.
  - assert (C : Ctx lo n) by (eapply ctx_of; eauto).
    unfold cleanup_t. destruct (la a) as [l|], (tbl s a) as [e|] eqn:E; auto; try lia.
    pose proof (G a e E) as [_ Hle].
    rewrite (keep_exact lo now e n C Hle Hn). subst l.
    destruct (gcTime <? n - e_last e) eqn:El; cbn [negb]; [apply Z.ltb_lt in El; exact El|reflexivity].
Qed.

Lemma last_arr_cons a o r acc : last_arr a (o :: r) acc = last_arr a r (last_arr a [o] acc).
Proof. destruct o; reflexivity. Qed.

Lemma seen_run lo : forall ops now la s,
  Base lo -> lo <= now -> Good lo now (tbl s) -> monotone now ops -> bounded (lo + 2^62) ops ->
  Seen now la (tbl s) ->
  Seen (endtime now ops) (fun a => last_arr a ops (la a)) (tbl (final (step true) s ops)).
Proof.
  induction ops as [|o r IH]; intros now la s B Hl G M Bd S; [exact S|].
  destruct M as [Hn M]. destruct Bd as [Hb Bd].
  pose proof (good_step lo now true s o B Hl G Hn Hb) as G1.
  pose proof (seen_step lo now la s o B Hl G Hn Hb S) as S1.
  unfold final in *. cbn [run endtime]. destruct (step true s o) as [s1 r1]. cbn [fst] in *.
  specialize (IH (time_of o) _ s1 B ltac:(lia) G1 M Bd S1).
  destruct (run (step true) s1 r). cbn [fst] in *.
  intros a. specialize (IH a). rewrite last_arr_cons. exact IH.
Qed.

Lemma last_arr_app_gc a h t : forall acc, last_arr a (h ++ [Gc t]) acc = last_arr a h acc.
Proof. induction h as [|o r IH]; intros acc; [reflexivity|]. cbn [app]. rewrite (last_arr_cons a o (r ++ [Gc t])), (last_arr_cons a o r). apply IH. Qed.

(* "Entries of idle addresses are forgotten": right after a collection pass at
   time t the table is exactly the addresses whose last arrival l satisfies
   t - l <= garbageCollectTime, each with lastTime = l. *)
Theorem idle_entries_forgotten : forall lo h t a, valid lo (h ++ [Gc t]) ->
  let s := final (step true) empty (h ++ [Gc t]) in
  (forall e, tbl s a = Some e -> last_arr a h None = Some (e_last e) /\ t - e_last e <= gcTime) /\
  (tbl s a = None -> match last_arr a h None with Some l => gcTime < t - l | None => True end).
Proof.
  intros lo h t a V. cbv zeta. destruct (valid_parts lo _ V) as (B & M & Bd).
  assert (S0 : Seen lo (fun _ => None) (tbl empty)) by (intros b; exact I).
  pose proof (seen_run lo (h ++ [Gc t]) lo (fun _ => None) empty B ltac:(lia) (good_empty lo lo) M Bd S0 a) as S.
  pose proof (good_run lo true (h ++ [Gc t]) lo empty B ltac:(lia) (good_empty lo lo) M Bd) as G.
  pose proof (last_arr_app_gc a h t) as El.
  cbv beta in S. rewrite El in S.
  (* the last operation is the pass itself: what it kept is not idle *)
  assert (Et : endtime lo (h ++ [Gc t]) = t).
  { rewrite (endtime_last lo (h ++ [Gc t]) (Gc t)). rewrite last_last.
    destruct (h ++ [Gc t]) eqn:E; [destruct h; discriminate|reflexivity]. }
  rewrite Et in *.
  assert (Kept : forall e, tbl (final (step true) empty (h ++ [Gc t])) a = Some e -> t - e_last e <= gcTime).
  { intros e E. rewrite final_app in E. unfold final at 1 in E. cbn [run step] in E. cbn [fst tbl cleanup] in E.
    unfold cleanup_t in E. destruct (tbl (final (step true) empty h) a) as [e0|] eqn:E0; [|discriminate].
    destruct (keep e0 t) eqn:K; [|discriminate]. inversion E; subst e0.
    apply monotone_app in M. destruct M as [M1 M2]. apply bounded_app in Bd. destruct Bd as [B1 B2].
    pose proof (good_run lo true h lo empty B ltac:(lia) (good_empty lo lo) M1 B1 a e E0) as [_ Hle].
    cbn [monotone time_of] in M2. destruct M2 as [Hn _]. cbn [bounded time_of] in B2. destruct B2 as [Hb _].
    pose proof (monotone_endtime lo h M1) as Hlo.
    assert (C : Ctx lo t) by (eapply ctx_of; eauto).
    rewrite (keep_exact lo (endtime lo h) e t C Hle Hn) in K.
    destruct (gcTime <? t - e_last e) eqn:El'; [discriminate|]. apply Z.ltb_ge in El'. exact El'. }
  split.
  - intros e E. rewrite E in S. destruct (last_arr a h None) as [l|]; [|contradiction].
    subst l. split; [reflexivity|apply Kept; exact E].
  - intros E. rewrite E in S. destruct (last_arr a h None); [exact S|exact I].
Qed.

(* len(rate.table) of the model is the number of entries *)
Theorem keys_table : forall gc ops,
  let s := final (step gc) empty ops in
  NoDup (keys s) /\ forall a, In a (keys s) <-> tbl s a <> None.
Proof.
  intros gc ops. cbv zeta.
  apply (final_inv (step gc) (fun s => NoDup (keys s) /\ forall a, In a (keys s) <-> tbl s a <> None)).
  - intros s o [ND K]. destruct o as [b n|n]; cbn [step].
    + unfold allow. destruct (allow_t (tbl s) b n) as [t' d] eqn:Ea. cbn [fst keys tbl].
      assert (Ht : t' = fst (allow_t (tbl s) b n)) by (rewrite Ea; reflexivity).
      assert (Hb : t' b <> None).
      { rewrite Ht. unfold allow_t. destruct (tbl s b); [destruct (cost <? refill e n)|]; cbn [fst]; unfold put; rewrite N.eqb_refl; discriminate. }
      assert (Ho : forall a, a <> b -> t' a = tbl s a) by (intros a Ha; rewrite Ht; apply allow_t_other; exact Ha).
      destruct (tbl s b) as [e|] eqn:Eb.
      * split; [exact ND|]. intros a. destruct (N.eq_dec a b) as [->|Hne].
        -- rewrite K, Eb. split; intros _; [exact Hb|discriminate].
        -- rewrite K, (Ho a Hne). tauto.
      * split.
        -- constructor; [|exact ND]. rewrite K, Eb. intros H; apply H; reflexivity.
        -- intros a. cbn [In]. destruct (N.eq_dec a b) as [->|Hne].
           ++ split; [intros _; exact Hb|intros _; left; reflexivity].
           ++ rewrite K, (Ho a Hne). split; [intros [H|H]; [congruence|exact H]|intros H; right; exact H].
    + destruct gc; cbn [fst]; [|split; assumption].
      unfold cleanup. cbn [keys tbl]. split; [apply NoDup_filter; exact ND|].
      intros a. rewrite filter_In, K. unfold cleanup_t.
      destruct (tbl s a) as [e|]; [destruct (keep e n)|]; split; try tauto; try (intros [H1 H2]; discriminate);
        try (intros H; split; [discriminate|reflexivity]); intros H; exfalso; apply H; reflexivity.
  - split; [constructor|]. intros a. cbn. split; [contradiction|intros H; apply H; reflexivity].
Qed.
