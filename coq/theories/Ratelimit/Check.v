(* Correspondence checker for C19: run the mirror model on the histories the
   implementation ran, compare result by result, and evaluate the property
   (Spec.holds_chk) on the implementation's own trace.
   Depends on Model and Spec only. *)
From WG Require Import Base.Prelude Gen.Constants Ratelimit.Model Ratelimit.Spec.
From WG Require Import Base.Ints.
Local Open Scope N_scope.

Record case := {
  c_ops : list op;
  c_obs : list res;          (* with collection passes *)
  c_nogc : list bool;        (* decisions, same arrivals, passes skipped *)
  c_addr : N;                (* address run alone *)
  c_alone : list bool        (* its decisions when it is the only sender *)
}.

(* ---- decoding of the primitive-integer case format ---- *)
(* address: 6 ints  zone identity (0 = none), family, w3, w2, w1, w0 (32-bit
   words, most significant first).  The limiter key is the whole netip.Addr:
   two addresses that differ only in the zone are different keys. *)
Fixpoint dec_addrs (l : list Uint63.int) : list N :=
  match l with
  | z :: f :: w3 :: w2 :: w1 :: w0 :: t =>
      (n_of_int z * 2^136 + n_of_int f * 2^128 + n_of_int w3 * 2^96 + n_of_int w2 * 2^64
       + n_of_int w1 * 2^32 + n_of_int w0)
      :: dec_addrs t
  | _ => []
  end.
(* op: 3 ints  address index (2^40 = collection pass), high and low 32 bits of time + 2^63 *)
Definition dec_time (hi lo : Uint63.int) : Z :=
  (Z.of_N (n_of_int hi * 4294967296 + n_of_int lo) - 2^63)%Z.
Fixpoint dec_ops (addrs : list N) (l : list Uint63.int) : list op :=
  match l with
  | a :: hi :: lo :: t =>
      (if n_of_int a =? 1099511627776 then Gc (dec_time hi lo)
       else Arrive (nth (N.to_nat (n_of_int a)) addrs 0) (dec_time hi lo)) :: dec_ops addrs t
  | _ => []
  end.
(* observation: one int per op: 0/1 for Allow, len(table) after a pass *)
Fixpoint dec_obs (ops : list op) (l : list Uint63.int) : list res :=
  match ops, l with
  | Arrive _ _ :: ops', x :: t => Dec (negb (n_of_int x =? 0)) :: dec_obs ops' t
  | Gc _ :: ops', x :: t => Len (n_of_int x) :: dec_obs ops' t
  | _, _ => []
  end.

Definition mk (addrs ops obs : list Uint63.int) (nogc : list bool) (pa : Uint63.int) (alone : list bool) : case :=
  let ad := dec_addrs addrs in
  let o := dec_ops ad ops in
  {| c_ops := o; c_obs := dec_obs o obs; c_nogc := nogc;
     c_addr := nth (N.to_nat (n_of_int pa)) ad 0; c_alone := alone |}.

(* ---- comparison ---- *)
Definition res_eqb (x y : res) : bool :=
  match x, y with
  | Dec a, Dec b => Bool.eqb a b
  | Len a, Len b => a =? b
  | _, _ => false
  end.
Fixpoint first_rdiff (x y : list res) (i : N) : option N :=
  match x, y with
  | [], [] => None
  | p :: x', q :: y' => if res_eqb p q then first_rdiff x' y' (i + 1) else Some i
  | _, _ => Some i
  end.

(* (kind, clause, position)
   kind 1 = implementation differs from the mirror model
            clause 0 main run, 3 run without passes, 4 address alone
   kind 2 = the property fails on the implementation's own trace
            clause 1 envelope, 2 spaced, 3 gc visible, 4 not independent,
            6 an address idle for more than garbageCollectTime survives a pass
   The property is evaluated on histories that satisfy its hypothesis
   (monotone int64 times inside one span of 2^62 ns). *)
Definition check_case (k : case) : list (N * N * N) :=
  let ops := c_ops k in
  let m := outs (step true) empty ops in
  let m_nogc := decs (outs (step false) empty ops) in
  let m_alone := decs (outs (step true) empty (proj (c_addr k) ops)) in
  (match first_rdiff m (c_obs k) 0 with Some i => [(1, 0, i)] | None => [] end) ++
  (match first_diff m_nogc (c_nogc k) 0 with Some i => [(1, 3, i)] | None => [] end) ++
  (match first_diff m_alone (c_alone k) 0 with Some i => [(1, 4, i)] | None => [] end) ++
  (if validb ops
   then map (fun p => (2, fst p, snd p))
            (holds_chk (arrivals ops (c_obs k)) (c_nogc k) (c_addr k) (c_alone k)) ++
        (match forgotten_chk [] ops (c_obs k) 0 with Some i => [(2, 6, i)] | None => [] end)
   else []).

Fixpoint check_cases (ks : list case) (idx : N) : list (N * N * N * N) :=
  match ks with
  | [] => []
  | k :: ks' =>
      map (fun p => (idx, fst (fst p), snd (fst p), snd p)) (check_case k) ++ check_cases ks' (idx + 1)
  end.

(* ---- branch statistics of the model over the cases ----
   [new entry; admitted; refused; refused with tokens = packetCost exactly;
    refill capped at maxTokens; int64 wrap or saturation hit;
    collection passes; passes that removed an entry; histories outside the
    property's hypothesis] *)
Fixpoint bump (l : list N) (i : nat) : list N :=
  match l, i with
  | [], _ => []
  | x :: t, O => (x + 1) :: t
  | x :: t, S j => x :: bump t j
  end.

Definition classify (s : state) (o : op) (st : list N) : list N :=
  match o with
  | Arrive a now =>
      match tbl s a with
      | None => bump st 0
      | Some e =>
          let raw := (e_tok e + (now - e_last e))%Z in
          let t1 := refill e now in
          let st := if (cost <? t1)%Z then bump st 1 else bump st 2 in
          let st := if (t1 =? cost)%Z then bump st 3 else st in
          let st := if (maxTokens <? raw)%Z then bump st 4 else st in
          if (wrap64 (e_tok e + elapsed now (e_last e)) =? raw)%Z then st else bump st 5
      end
  | Gc now =>
      let st := bump st 6 in
      if (length (keys (cleanup s now)) <? length (keys s))%nat then bump st 7 else st
  end.

Fixpoint stats_ops (s : state) (ops : list op) (st : list N) : list N :=
  match ops with
  | [] => st
  | o :: ops' => stats_ops (fst (step true s o)) ops' (classify s o st)
  end.

Definition stats (ks : list case) : list N :=
  fold_left (fun st k =>
               let st := stats_ops empty (c_ops k) st in
               if validb (c_ops k) then st else bump st 8) ks [0;0;0;0;0;0;0;0;0].

(* ---- concurrent scenario: the admissions observed from k callers racing
   on a new address (plus follow-up calls), as events (address index, time,
   decision): 4 ints each.  Judged by the same envelope checker; reported as
   kind 2, clause 5. ---- *)
Fixpoint dec_evs (addrs : list N) (l : list Uint63.int) : list ev :=
  match l with
  | a :: hi :: lo :: d :: t =>
      (nth (N.to_nat (n_of_int a)) addrs 0, dec_time hi lo, negb (n_of_int d =? 0)) :: dec_evs addrs t
  | _ => []
  end.
Definition conc_check (addrs evs : list Uint63.int) : list (N * N * N * N) :=
  let e := dec_evs (dec_addrs addrs) evs in
  match envelope_chk e 0 with
  | Some i => [(0, 2, 5, i)]
  | None => []
  end.
Definition conc_admitted (addrs evs : list Uint63.int) : Z :=
  let ad := dec_addrs addrs in
  admitted (nth 0 ad 0) (dec_evs ad evs).

(* ---- device-level traces (real time): events (address index, time ns,
   processed by the device = admitted by the limiter), the address whose
   decisions are compared with [alone] (a run of the same arrival pattern with
   no other sender), [tol] = bound on the timing error of a window.
   kind 2, clause 11 envelope, 12 spaced refused, 14 not independent. ---- *)
Definition dev_check (idx : N) (addrs evs : list Uint63.int) (pa : Uint63.int) (alone : list bool) (tol : Uint63.int)
  : list (N * N * N * N) :=
  let ad := dec_addrs addrs in
  let e := dec_evs ad evs in
  let a := nth (N.to_nat (n_of_int pa)) ad 0 in
  (match envelope_chk_tol (Z.of_N (n_of_int tol)) e 0 with Some i => [(idx, 2, 11, i)] | None => [] end) ++
  (match spaced_chk [] e 0 with Some i => [(idx, 2, 12, i)] | None => [] end) ++
  (match first_diff (decs_of a e) alone 0 with Some i => [(idx, 2, 14, i)] | None => [] end).

(* ---- real collector goroutine: [emptied] = the table was emptied by the real
   collector after the idle gap; [returned] = for each later call of Allow (and
   the final Close) whether it returned before the watchdog expired.
   kind 2, clause 7 a call does not return, clause 8 idle entries not forgotten
   by the real collector. ---- *)
Fixpoint first_false (l : list bool) (i : N) : option N :=
  match l with
  | [] => None
  | true :: r => first_false r (i + 1)
  | false :: _ => Some i
  end.
Definition live_check (emptied : bool) (returned : list bool) : list (N * N * N * N) :=
  (if emptied then [] else [(0, 2, 8, 0)]) ++
  (match first_false returned 0 with Some i => [(0, 2, 7, i)] | None => [] end).

(* ---- schedule-forcing passes on the real limiter (virtual clock): events
   (address index, time, decision), judged by the envelope checker.
   kind 2, clause 9 callers released together after a pass (concurrent first
   messages), clause 10 bursts fired while a collection pass is held. ---- *)
Definition sched_check (idx clause : N) (addrs evs : list Uint63.int) : list (N * N * N * N) :=
  match envelope_chk (dec_evs (dec_addrs addrs) evs) 0 with
  | Some i => [(idx, 2, clause, i)]
  | None => []
  end.

(* ---- k concurrent callers for one address with an existing entry, at one
   instant, then sequential follow-ups: events = [nsetup] setup calls, then the
   k concurrent calls in order of return, then the follow-ups.  Calls that
   overlap may be serialised in any order, and at one instant for one address
   the model's decisions do not depend on that order: the number admitted
   among the k, and every setup and follow-up decision, must be the mirror
   model's.  kind 2, clause 15 (a caller refused although the bucket had
   tokens, or admitted although it had none). ---- *)
Fixpoint count_true (l : list bool) : N :=
  match l with [] => 0 | true :: r => 1 + count_true r | false :: r => count_true r end.
Definition contention_check (idx : N) (addrs evs : list Uint63.int) (nsetup k : nat) : list (N * N * N * N) :=
  let e := dec_evs (dec_addrs addrs) evs in
  let ops := map (fun x => Arrive (fst (fst x)) (snd (fst x))) e in
  let obs := map (fun x => snd x) e in
  let m := decs (outs (step false) empty ops) in
  let grp l := firstn k (skipn nsetup l) in
  let rest l := firstn nsetup l ++ skipn (nsetup + k) l in
  if negb (validb ops) then []
  else if negb (count_true (grp m) =? count_true (grp obs)) then [(idx, 2, 15, N.of_nat nsetup)]
  else match first_diff (rest m) (rest obs) 0 with Some i => [(idx, 2, 15, i)] | None => [] end.
