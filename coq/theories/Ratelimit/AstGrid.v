(* C19: grid on which the interpreter of the source-generated AST (Ratelimit/Ast.v on Gen/RlAst.v) is compared with
   the mirror model, per entry cell: 53 cells x 8 clock values for Allow, 24 pairs for cleanup's condition.  Used only
   when Ratelimit/AstProofs.v no longer checks, to find an input for the report; it decides nothing.  No proofs here. *)
From Coq Require Import String.
From WG Require Import Base.Prelude Gen.Constants Ratelimit.Model Ratelimit.Ast Gen.RlAst.
Local Open Scope Z_scope.
Definition toks := [-2^63; -1; 0; 1; 49999999; 50000000; 50000001; 199999999; 200000000; 249999999; 250000000; 250000001; 2^63-1].
Definition lasts := [0; 1000; -2^63; 2^63-1].
Definition nows := [0; 1; 1000; 1001; 50001000; 250001000; 2^63-1; -2^63].
Definition cells : list (option entry) :=
  None :: flat_map (fun l => map (fun tk => Some {| e_last := l; e_tok := tk |}) toks) lasts.
Definition eqe (x y : entry) := (e_last x =? e_last y) && (e_tok x =? e_tok y).
Definition model (c : option entry) (now : Z) : entry * bool :=
  match c with
  | None => ({| e_last := now; e_tok := maxTokens - cost |}, true)
  | Some e => let t1 := refill e now in
      if cost <? t1 then ({| e_last := now; e_tok := t1 - cost |}, true) else ({| e_last := now; e_tok := t1 |}, false)
  end.
Definition agree (c : option entry) (now : Z) : bool :=
  match run_cell allow_body c 0 now with
  | Some r => match r_cell r with Some e => eqe e (fst (model c now)) | None => false end && Bool.eqb (r_ret r) (snd (model c now))
  | None => false
  end.
Definition show (c : option entry) (now : Z) :=
  (match c with Some e => Some (e_last e, e_tok e) | None => None end, now,
   match run_cell allow_body c 0 now with Some r => Some (match r_cell r with Some e => Some (e_last e, e_tok e) | None => None end, r_ret r) | None => None end,
   (let '(e, d) := model c now in (e_last e, e_tok e, d))).
Definition diffs := flat_map (fun c => flat_map (fun now => if agree c now then [] else [show c now]) nows) cells.
(* cleanup *)
Definition cdiffs := flat_map (fun l => flat_map (fun now =>
  match eval_cleanup_cond cleanup_entry_var cleanup_cond {| e_last := l; e_tok := 0 |} now with
  | Some b => if Bool.eqb b (negb (keep {| e_last := l; e_tok := 0 |} now)) then [] else [(l, now)]
  | None => [(l, now)] end) [0; 999999999; 1000000000; 1000000001; 2^63-1; -2^63]) [0; 1; -2^63; 2^63-1].

