(* The property C19 on observable traces: histories of arrivals (time, source
   address) and collection passes, and the decisions observed.
     envelope : in any window of T ns at most n admissions of one address,
                n * packetCost <= maxTokens + T          (= 5 + 20 T/s)
     spaced   : an address all of whose arrivals are more than packetCost ns
                apart is never refused
     gc       : decisions with collection passes = decisions without
     indep    : decisions for one address = decisions when only that address
                sends
   Boolean checkers over a trace (used on the implementation's own trace in
   Check.v) and the vocabulary of the theorems. *)
From WG Require Import Base.Prelude Gen.Constants Ratelimit.Model.
Local Open Scope Z_scope.

(* ---- histories ---- *)
Fixpoint monotone (now : Z) (ops : list op) : Prop :=
  match ops with
  | [] => True
  | o :: r => now <= time_of o /\ monotone (time_of o) r
  end.

(* All times are int64 values inside one span of 2^62 ns (146 years) that
   starts at [lo], and do not go backwards. *)
Definition valid (lo : Z) (ops : list op) : Prop :=
  - 2^63 <= lo /\ lo + 2^62 < 2^63 /\ monotone lo ops /\
  Forall (fun o => time_of o <= lo + 2^62) ops.

Fixpoint monotoneb (now : Z) (ops : list op) : bool :=
  match ops with
  | [] => true
  | o :: r => (now <=? time_of o) && monotoneb (time_of o) r
  end.
Definition validb (ops : list op) : bool :=
  match ops with
  | [] => true
  | o :: _ =>
      let lo := time_of o in
      (- 2^63 <=? lo) && (lo + 2^62 <? 2^63) && monotoneb lo ops &&
      forallb (fun o => time_of o <=? lo + 2^62) ops
  end.

(* ---- events: arrivals with their decision ---- *)
Definition ev := (N * Z * bool)%type.
Fixpoint arrivals (ops : list op) (rs : list res) : list ev :=
  match ops, rs with
  | Arrive a t :: ops', Dec d :: rs' => (a, t, d) :: arrivals ops' rs'
  | _ :: ops', _ :: rs' => arrivals ops' rs'
  | _, _ => []
  end.

(* admissions of [a] among events *)
Fixpoint admitted (a : N) (evs : list ev) : Z :=
  match evs with
  | [] => 0
  | (b, _, d) :: r => (if N.eqb b a && d then 1 else 0) + admitted a r
  end.

(* time from the first to the last operation of a (sub)history *)
Definition span (ops : list op) : Z :=
  match ops with
  | [] => 0
  | o :: _ => time_of (List.last ops o) - time_of o
  end.

(* arrivals of one address only (collection passes kept) *)
Definition proj (a : N) (ops : list op) : list op :=
  filter (fun o => match o with Arrive b _ => N.eqb b a | Gc _ => true end) ops.
Fixpoint decs_of (a : N) (evs : list ev) : list bool :=
  match evs with
  | [] => []
  | (b, _, d) :: r => if N.eqb b a then d :: decs_of a r else decs_of a r
  end.

(* every arrival of [a] comes more than packetCost after the previous one *)
Fixpoint spaced_from (a : N) (prev : option Z) (ops : list op) : Prop :=
  match ops with
  | [] => True
  | Arrive b t :: r =>
      if N.eqb b a
      then match prev with Some p => p + cost < t | None => True end /\ spaced_from a (Some t) r
      else spaced_from a prev r
  | Gc _ :: r => spaced_from a prev r
  end.
Definition spaced (a : N) (ops : list op) : Prop := spaced_from a None ops.

(* ---- boolean checkers (position of the first offending event) ---- *)

(* windows starting at event 0 of [evs] for its address; [tol] ns of slack on
   the window length (0 for virtual-clock traces, the measurement error bound
   for real-time device traces) *)
Fixpoint env_scan_tol (tol : Z) (a : N) (t0 : Z) (n : Z) (evs : list ev) : bool :=
  match evs with
  | [] => true
  | (b, t, d) :: r =>
      if N.eqb b a && d
      then ((n + 1) * cost <=? maxTokens + (t - t0) + tol) && env_scan_tol tol a t0 (n + 1) r
      else env_scan_tol tol a t0 n r
  end.
Fixpoint envelope_chk_tol (tol : Z) (evs : list ev) (i : N) : option N :=
  match evs with
  | [] => None
  | (a, t, _) :: r => if env_scan_tol tol a t 0 evs then envelope_chk_tol tol r (i + 1)%N else Some i
  end.
Definition envelope_chk (evs : list ev) (i : N) : option N := envelope_chk_tol 0 evs i.

Fixpoint lookup_sp (a : N) (l : list (N * (Z * bool))) : option (Z * bool) :=
  match l with
  | [] => None
  | (b, v) :: r => if N.eqb b a then Some v else lookup_sp a r
  end.
Fixpoint spaced_chk (st : list (N * (Z * bool))) (evs : list ev) (i : N) : option N :=
  match evs with
  | [] => None
  | (a, t, d) :: r =>
      let fl := match lookup_sp a st with
                | None => true
                | Some (tl, f) => f && (tl + cost <? t)
                end in
      if fl && negb d then Some i else spaced_chk ((a, (t, fl)) :: st) r (i + 1)%N
  end.

(* "Entries of idle addresses are forgotten": right after a collection pass at
   time t the table holds no address idle for more than garbageCollectTime,
   i.e. at most the addresses whose last arrival l satisfies t - l <= gcTime.
   [st] = last arrival per address (newest binding first). *)
Fixpoint dedup_count (t : Z) (st : list (N * (Z * bool))) (seen : list N) : N :=
  match st with
  | [] => 0%N
  | (a, (l, _)) :: r =>
      if existsb (N.eqb a) seen then dedup_count t r seen
      else ((if (t - l <=? gcTime)%Z then 1 else 0) + dedup_count t r (a :: seen))%N
  end.
Fixpoint forgotten_chk (st : list (N * (Z * bool))) (ops : list op) (rs : list res) (i : N) : option N :=
  match ops, rs with
  | Arrive a t :: ops', _ :: rs' => forgotten_chk ((a, (t, true)) :: st) ops' rs' (i + 1)%N
  | Gc t :: ops', Len n :: rs' =>
      if (n <=? dedup_count t st [])%N then forgotten_chk st ops' rs' (i + 1)%N else Some i
  | Gc _ :: ops', _ :: rs' => Some i
  | _, _ => None
  end.

Fixpoint first_diff (x y : list bool) (i : N) : option N :=
  match x, y with
  | [], [] => None
  | p :: x', q :: y' => if Bool.eqb p q then first_diff x' y' (i + 1)%N else Some i
  | _, _ => Some i
  end.

(* The property on a trace: [evs] with collection passes, [nogc] the decisions
   for the same arrivals without them, [alone] the decisions when only [a]
   sends.  Clause numbers: 1 envelope, 2 spaced, 3 gc, 4 independence. *)
Definition holds_chk (evs : list ev) (nogc : list bool) (a : N) (alone : list bool)
  : list (N * N) :=
  (match envelope_chk evs 0 with Some i => [(1, i)%N] | None => [] end) ++
  (match spaced_chk [] evs 0 with Some i => [(2, i)%N] | None => [] end) ++
  (match first_diff (map (fun e => snd e) evs) nogc 0 with Some i => [(3, i)%N] | None => [] end) ++
  (match first_diff (decs_of a evs) alone 0 with Some i => [(4, i)%N] | None => [] end).
Definition holdsb evs nogc a alone : bool :=
  match holds_chk evs nogc a alone with [] => true | _ => false end.

(* time of the last arrival of [a] in a history ([acc] = before the history) *)
Fixpoint last_arr (a : N) (h : list op) (acc : option Z) : option Z :=
  match h with
  | [] => acc
  | Arrive b t :: r => last_arr a r (if N.eqb b a then Some t else acc)
  | Gc _ :: r => last_arr a r acc
  end.
