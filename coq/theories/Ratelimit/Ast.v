(* Deep-embedded mini-language for the bodies of ratelimiter/ratelimiter.go (Ratelimiter.Allow and the per-entry
   body of the range loop of cleanup()) and an executable SEQUENTIAL interpreter over Model.entry / Model.table.
   The terms are produced from the Go SOURCE by harness/cmd/rlast (Gen/RlAst.v); Ratelimit/AstProofs.v proves
   interpreter = Model.allow_t / Model.keep for all inputs.  No proofs here.

   Semantics (a trusted reading of Go):
   - integers and times are int64, carried in Z (times = nanoseconds, as in Model.v).  `+`/`-`/`+=`/`-=` wrap
     (Model.wrap64); `a.Sub(b)` and `a.Sub(b).Nanoseconds()` saturate (Model.elapsed); comparisons are on Z.
   - rate.timeNow() is the clock, an INPUT of the interpreter; every call inside one run returns the same [now].
   - the heap is seen from the one address [ip] of the call: [cell] is what rate.table[ip] points to (None: no
     entry), [len] is len(rate.table).  A pointer variable holds VNil, VRef (the object in the cell: writes through
     it change the cell, as in Go) or VNew (an object made by new(RatelimiterEntry), not yet in the map; its
     lastTime is None until assigned, tokens 0).  `rate.table[ip] = x` moves a VNew object into the cell (the
     variable becomes VRef, len grows by one when the cell was empty).
   - lock operations (SLockOp) do nothing here; they matter only in the concurrent model (Conc.v).  A lock
     operation on x.mu with x == nil yields None (Go panics), as does any field access through nil.
   - the channel send `rate.stopReset <- struct{}{}` (SNotify) only sets the output flag [notified].
   - EUnknown/BUnknown/LUnknown/SUnknown (what the translator emits for anything it does not recognise), a read of
     an undeclared variable, an ill-kinded use (integer where a pointer is expected, ...), storing nil or an entry
     whose lastTime was never assigned, and falling off the end of Allow yield None. *)
From Coq Require Import String.
From WG Require Import Base.Prelude Ratelimit.Model.
Local Open Scope Z_scope.

Inductive binop := OAdd | OSub.
Inductive cmpop := CGe | CGt | CLe | CLt | CEq | CNe.
Inductive lockop := KRLock | KRUnlock | KLock | KUnlock.
Inductive locktarget :=
| TRate                          (* rate.mu *)
| TEntry (x : string).           (* x.mu, x a *RatelimiterEntry variable *)

Inductive expr :=
| EConst (z : Z)
| EVar (x : string)              (* integer / time local *)
| ETokens (x : string)           (* x.tokens *)
| ELastTime (x : string)         (* x.lastTime *)
| ENow                           (* rate.timeNow() *)
| ELen                           (* len(rate.table) *)
| EElapsed (a b : expr)          (* a.Sub(b)                 (time.Duration) *)
| EElapsedNs (a b : expr)        (* a.Sub(b).Nanoseconds()   (int64) *)
| EBin (o : binop) (a b : expr)
| EUnknown (what : string).

Inductive bexpr :=
| BLit (b : bool)
| BCmp (o : cmpop) (a b : expr)
| BIsNil (x : string)            (* x == nil *)
| BNotNil (x : string)           (* x != nil *)
| BUnknown (what : string).

Inductive lhs :=
| LVar (x : string)
| LTokens (x : string)           (* x.tokens *)
| LLastTime (x : string)         (* x.lastTime *)
| LUnknown (what : string).

Inductive stmt :=
| SSkip
| SSeq (a b : stmt)
| SDeclPtr (x : string)                       (* var x *RatelimiterEntry *)
| SLookup (x : string)                        (* x = rate.table[ip] *)
| SNew (x : string)                           (* x = new(RatelimiterEntry) *)
| SStore (x : string)                         (* rate.table[ip] = x *)
| SDelete                                     (* delete(rate.table, key)   (cleanup: key of the entry at hand) *)
| SLockOp (k : lockop) (t : locktarget)       (* rate.mu.RLock() ... x.mu.Unlock() *)
| SNotify                                     (* rate.stopReset <- struct{}{} *)
| SAssign (l : lhs) (e : expr)                (* x := e, x = e, x.tokens = e, x.lastTime = e *)
| SOpAssign (l : lhs) (o : binop) (e : expr)  (* l += e, l -= e *)
| SIf (c : bexpr) (t e : stmt)
| SReturn (b : bexpr)
| SUnknown (what : string).

Inductive value :=
| VInt (z : Z)
| VNil
| VRef                                        (* the object rate.table[ip] points to *)
| VNew (last : option Z) (tok : Z).           (* fresh object, not in the map *)

Record state := { env : list (string * value); cell : option entry; len : Z; notified : bool }.

Inductive outcome :=
| Normal (st : state)
| Returned (st : state) (r : bool).

Fixpoint lookup (x : string) (e : list (string * value)) : option value :=
  match e with
  | [] => None
  | (y, v) :: t => if String.eqb x y then Some v else lookup x t
  end.

Fixpoint is_set (x : string) (e : list (string * value)) : bool :=
  match e with
  | [] => false
  | (y, _) :: t => if String.eqb x y then true else is_set x t
  end.
Fixpoint replace (x : string) (v : value) (e : list (string * value)) : list (string * value) :=
  match e with
  | [] => []
  | (y, w) :: t => if String.eqb x y then (y, v) :: t else (y, w) :: replace x v t
  end.
Definition update (x : string) (v : value) (e : list (string * value)) : list (string * value) :=
  if is_set x e then replace x v e else (x, v) :: e.

Definition set_env (st : state) (e : list (string * value)) : state :=
  {| env := e; cell := cell st; len := len st; notified := notified st |}.
Definition set_cell (st : state) (c : option entry) : state :=
  {| env := env st; cell := c; len := len st; notified := notified st |}.

Definition binop_sem (o : binop) (x y : Z) : Z :=
  match o with
  | OAdd => wrap64 (x + y)
  | OSub => wrap64 (x - y)
  end.

Definition cmpop_sem (o : cmpop) (x y : Z) : bool :=
  match o with
  | CGe => y <=? x
  | CGt => y <? x
  | CLe => x <=? y
  | CLt => x <? y
  | CEq => x =? y
  | CNe => negb (x =? y)
  end.

Definition read_tokens (x : string) (st : state) : option Z :=
  match lookup x (env st) with
  | Some VRef => match cell st with Some e => Some (e_tok e) | None => None end
  | Some (VNew _ tk) => Some tk
  | _ => None
  end.

Definition read_lasttime (x : string) (st : state) : option Z :=
  match lookup x (env st) with
  | Some VRef => match cell st with Some e => Some (e_last e) | None => None end
  | Some (VNew l _) => l
  | _ => None
  end.

Fixpoint eval (now : Z) (e : expr) (st : state) : option Z :=
  match e with
  | EConst z => Some z
  | EVar x => match lookup x (env st) with Some (VInt z) => Some z | _ => None end
  | ETokens x => read_tokens x st
  | ELastTime x => read_lasttime x st
  | ENow => Some now
  | ELen => Some (len st)
  | EElapsed a b | EElapsedNs a b =>
      match eval now a st with
      | Some x => match eval now b st with Some y => Some (elapsed x y) | None => None end
      | None => None
      end
  | EBin o a b =>
      match eval now a st with
      | Some x => match eval now b st with Some y => Some (binop_sem o x y) | None => None end
      | None => None
      end
  | EUnknown _ => None
  end.

Definition is_nil (x : string) (st : state) : option bool :=
  match lookup x (env st) with
  | Some VNil => Some true
  | Some VRef => Some false
  | Some (VNew _ _) => Some false
  | _ => None
  end.

Definition evalb (now : Z) (b : bexpr) (st : state) : option bool :=
  match b with
  | BLit v => Some v
  | BCmp o a b =>
      match eval now a st with
      | Some x => match eval now b st with Some y => Some (cmpop_sem o x y) | None => None end
      | None => None
      end
  | BIsNil x => is_nil x st
  | BNotNil x => match is_nil x st with Some v => Some (negb v) | None => None end
  | BUnknown _ => None
  end.

Definition read_lhs (l : lhs) (st : state) : option Z :=
  match l with
  | LVar x => match lookup x (env st) with Some (VInt z) => Some z | _ => None end
  | LTokens x => read_tokens x st
  | LLastTime x => read_lasttime x st
  | LUnknown _ => None
  end.

Definition assign (l : lhs) (v : Z) (st : state) : option outcome :=
  match l with
  | LVar x =>
      match lookup x (env st) with
      | None | Some (VInt _) => Some (Normal (set_env st (update x (VInt v) (env st))))
      | _ => None
      end
  | LTokens x =>
      match lookup x (env st) with
      | Some VRef =>
          match cell st with
          | Some e => Some (Normal (set_cell st (Some {| e_last := e_last e; e_tok := v |})))
          | None => None
          end
      | Some (VNew l _) => Some (Normal (set_env st (update x (VNew l v) (env st))))
      | _ => None
      end
  | LLastTime x =>
      match lookup x (env st) with
      | Some VRef =>
          match cell st with
          | Some e => Some (Normal (set_cell st (Some {| e_last := v; e_tok := e_tok e |})))
          | None => None
          end
      | Some (VNew _ tk) => Some (Normal (set_env st (update x (VNew (Some v) tk) (env st))))
      | _ => None
      end
  | LUnknown _ => None
  end.

(* x must be a declared pointer variable *)
Definition set_ptr (x : string) (v : value) (st : state) : option outcome :=
  match lookup x (env st) with
  | Some VNil | Some VRef | Some (VNew _ _) => Some (Normal (set_env st (update x v (env st))))
  | _ => None
  end.

Definition andthen (r : option outcome) (k : state -> option outcome) : option outcome :=
  match r with
  | Some (Normal st) => k st
  | other => other
  end.

Fixpoint exec (now : Z) (s : stmt) (st : state) : option outcome :=
  match s with
  | SSkip => Some (Normal st)
  | SSeq a b => andthen (exec now a st) (exec now b)
  | SDeclPtr x =>
      match lookup x (env st) with
      | None => Some (Normal (set_env st ((x, VNil) :: env st)))
      | Some _ => None
      end
  | SLookup x => set_ptr x (match cell st with Some _ => VRef | None => VNil end) st
  | SNew x => set_ptr x (VNew None 0) st
  | SStore x =>
      match lookup x (env st) with
      | Some VRef => Some (Normal st)
      | Some (VNew (Some l) tk) =>
          match cell st with
          | None =>
              Some (Normal {| env := update x VRef (env st); cell := Some {| e_last := l; e_tok := tk |};
                              len := len st + 1; notified := notified st |})
          | Some _ => None       (* would replace the object other VRefs point to: not modelled *)
          end
      | _ => None
      end
  | SDelete =>
      match cell st with
      | Some _ => Some (Normal {| env := env st; cell := None; len := len st - 1; notified := notified st |})
      | None => Some (Normal st)
      end
  | SLockOp _ TRate => Some (Normal st)
  | SLockOp _ (TEntry x) =>
      match is_nil x st with
      | Some false => Some (Normal st)
      | _ => None
      end
  | SNotify => Some (Normal {| env := env st; cell := cell st; len := len st; notified := true |})
  | SAssign l e => match eval now e st with Some v => assign l v st | None => None end
  | SOpAssign l o e =>
      match read_lhs l st with
      | Some x => match eval now e st with Some y => assign l (binop_sem o x y) st | None => None end
      | None => None
      end
  | SIf c t e =>
      match evalb now c st with
      | Some true => exec now t st
      | Some false => exec now e st
      | None => None
      end
  | SReturn b => match evalb now b st with Some v => Some (Returned st v) | None => None end
  | SUnknown _ => None
  end.

Record result := { r_cell : option entry; r_len : Z; r_ret : bool; r_notified : bool }.

(* Allow(ip) seen from the entry of ip: [c] = what rate.table[ip] holds, [n] = len(rate.table), [now] = the clock *)
Definition run_cell (body : stmt) (c : option entry) (n : Z) (now : Z) : option result :=
  match exec now body {| env := []; cell := c; len := n; notified := false |} with
  | Some (Returned st b) => Some {| r_cell := cell st; r_len := len st; r_ret := b; r_notified := notified st |}
  | _ => None
  end.

(* Allow(a) on the table: the entries of the other addresses are untouched by construction (frame) *)
Definition run_allow (body : stmt) (t : table) (n : Z) (a : N) (now : Z) : option (table * bool) :=
  match run_cell body (t a) n now with
  | Some r => Some (match r_cell r with Some e => put a e t | None => t end, r_ret r)
  | None => None
  end.

(* Allow(a) on Model.state: len(rate.table) = length of keys; third component: was rate.stopReset signalled *)
Definition run_allow_state (body : stmt) (s : Model.state) (a : N) (now : Z) : option (Model.state * bool * bool) :=
  match run_cell body (tbl s a) (Z.of_nat (length (keys s))) now with
  | Some r =>
      Some ({| tbl := match r_cell r with Some e => put a e (tbl s) | None => tbl s end;
               keys := if Z.of_nat (length (keys s)) <? r_len r then a :: keys s else keys s |},
            r_ret r, r_notified r)
  | None => None
  end.

(* the body of `for key, entry := range rate.table { ... }` of cleanup() for one entry [e]: [entry] is bound to the
   object (VRef); result: what the map holds for that key afterwards *)
Definition run_cleanup_entry (entryvar : string) (body : stmt) (e : entry) (n : Z) (now : Z) : option (option entry) :=
  match exec now body {| env := [(entryvar, VRef)]; cell := Some e; len := n; notified := false |} with
  | Some (Normal st) => Some (cell st)
  | _ => None
  end.

(* the condition of the delete alone *)
Definition eval_cleanup_cond (entryvar : string) (c : bexpr) (e : entry) (now : Z) : option bool :=
  evalb now c {| env := [(entryvar, VRef)]; cell := Some e; len := 0; notified := false |}.
