(* C19, source tie: the interpreter of Ratelimit/Ast.v run on the terms that harness/cmd/rlast generated from
   ratelimiter/ratelimiter.go (Gen/RlAst.v) equals the hand-written mirror Ratelimit/Model.v, for ALL inputs.
     ast_allow_correct        Allow on the table      = Model.allow_t   (no range hypothesis is needed)
     ast_allow_state_correct  Allow on Model.state    = Model.allow, plus when rate.stopReset is signalled
     ast_cleanup_cond_correct the delete condition    = negb (Model.keep e now)
     ast_cleanup_entry_correct, ast_cleanup_t_pointwise   the per-entry loop body of cleanup() = Model.cleanup_t
     ast_run_correct          every history of Arrive/Gc operations, from any state
   The proof script follows the shape of the generated term (it case-splits on the source's ifs in source
   order), so a change of ratelimiter.go can make this file fail even when the change is semantically neutral;
   the theorems themselves are semantic. *)
From Coq Require Import String.
From WG Require Import Base.Prelude Gen.Constants Ratelimit.Model Ratelimit.Ast Gen.RlAst.
Local Open Scope Z_scope.

(* the translator's evaluation of the const block agrees with Gen/Constants.v (rlconsts) and hence the model *)
Lemma consts_agree :
  c_packetsPerSecond = Z.of_N rl_packetsPerSecond /\ c_packetsBurstable = Z.of_N rl_packetsBurstable /\
  c_garbageCollectTime = gcTime /\ c_packetCost = cost /\ c_maxTokens = maxTokens.
Proof. repeat split; reflexivity. Qed.

Ltac step :=
  cbn [exec eval evalb andthen assign read_lhs lookup update is_set replace binop_sem cmpop_sem
       env cell len notified set_env set_cell set_ptr is_nil read_tokens read_lasttime
       e_last e_tok negb String.eqb Ascii.eqb Bool.eqb andb].

(* Model.allow_t seen from the entry of the address at hand *)
Definition allow_cell (c : option entry) (now : Z) : entry * bool :=
  match c with
  | None => ({| e_last := now; e_tok := maxTokens - cost |}, true)
  | Some e =>
      let t1 := refill e now in
      if cost <? t1 then ({| e_last := now; e_tok := t1 - cost |}, true)
      else ({| e_last := now; e_tok := t1 |}, false)
  end.

Lemma allow_t_cell t a now :
  allow_t t a now = (put a (fst (allow_cell (t a) now)) t, snd (allow_cell (t a) now)).
Proof.
  unfold allow_t, allow_cell. destruct (t a) as [e|]; [|reflexivity].
  cbv zeta. destruct (cost <? refill e now); reflexivity.
Qed.

(* maxTokens and cost as the numbers the translator printed *)
Lemma maxTokens_val : maxTokens = 250000000. Proof. reflexivity. Qed.
Lemma cost_val : cost = 50000000. Proof. reflexivity. Qed.

(* entry.tokens -= packetCost does not wrap after the cap *)
Lemma sub_nowrap t1 : 50000000 < t1 -> t1 <= 250000000 -> wrap64 (t1 - 50000000) = t1 - 50000000.
Proof. unfold wrap64. intros. lia. Qed.

Theorem ast_allow_cell_correct : forall c n now,
  run_cell allow_body c n now =
  Some {| r_cell := Some (fst (allow_cell c now));
          r_len := match c with None => n + 1 | Some _ => n end;
          r_ret := snd (allow_cell c now);
          r_notified := match c with None => n + 1 =? 1 | Some _ => false end |}.
Proof.
  intros [[l tk]|] n now; unfold run_cell, allow_body, allow_cell.
  - (* existing entry *)
    step. unfold refill. rewrite maxTokens_val, cost_val. cbn [e_last e_tok].
    set (t0 := wrap64 (tk + elapsed now l)).
    destruct (Z.ltb_spec 250000000 t0) as [Hcap|Hcap]; step.
    + (* capped *)
      change (50000000 <? 250000000) with true. cbv iota. step.
      rewrite sub_nowrap by lia. reflexivity.
    + destruct (Z.ltb_spec 50000000 t0) as [Hc|Hc]; step.
      * rewrite sub_nowrap by lia. reflexivity.
      * reflexivity.
  - (* no entry *)
    step. destruct (n + 1 =? 1); step; reflexivity.
Qed.

(* Allow on the table.  The entries of the other addresses are untouched (put). *)
Theorem ast_allow_correct : forall t n a now,
  run_allow allow_body t n a now = Some (allow_t t a now).
Proof.
  intros. unfold run_allow. rewrite ast_allow_cell_correct, allow_t_cell. reflexivity.
Qed.

(* the statement asked for, with the (unneeded) range hypotheses spelled out *)
Definition int64 (z : Z) : Prop := - 2 ^ 63 <= z < 2 ^ 63.
Corollary ast_allow_correct_ranges : forall t a now,
  int64 now -> (forall e, t a = Some e -> int64 (e_last e) /\ int64 (e_tok e)) ->
  run_allow allow_body t 0 a now = Some (allow_t t a now).
Proof. intros. apply ast_allow_correct. Qed.

Corollary ast_allow_frame : forall t n a now t' d b,
  run_allow allow_body t n a now = Some (t', d) -> b <> a -> t' b = t b.
Proof.
  intros t n a now t' d b H Hb. rewrite ast_allow_correct, allow_t_cell in H.
  injection H as <- _. unfold put. destruct (N.eqb_spec b a); [contradiction|reflexivity].
Qed.

(* Allow on Model.state; rate.stopReset is signalled exactly when the first entry of an empty table is made *)
Theorem ast_allow_state_correct : forall s a now,
  run_allow_state allow_body s a now =
  Some (allow s a now,
        match tbl s a with None => (length (keys s) =? 0)%nat | Some _ => false end).
Proof.
  intros s a now. unfold run_allow_state, allow.
  rewrite ast_allow_cell_correct, allow_t_cell. cbn [r_cell r_len r_ret r_notified].
  destruct (tbl s a) as [e|].
  - rewrite Z.ltb_irrefl. reflexivity.
  - replace (Z.of_nat (length (keys s)) <? Z.of_nat (length (keys s)) + 1) with true
      by (symmetry; apply Z.ltb_lt; lia).
    replace (Z.of_nat (length (keys s)) + 1 =? 1) with (length (keys s) =? 0)%nat; [reflexivity|].
    destruct (Nat.eqb_spec (length (keys s)) 0) as [->|H]; [reflexivity|].
    symmetry. apply Z.eqb_neq. lia.
Qed.

(* cleanup(): the condition under which an entry is deleted *)
Theorem ast_cleanup_cond_correct : forall e now,
  eval_cleanup_cond cleanup_entry_var cleanup_cond e now = Some (negb (keep e now)).
Proof.
  intros [l tk] now. unfold eval_cleanup_cond, cleanup_cond, cleanup_entry_var, keep. step.
  rewrite negb_involutive. reflexivity.
Qed.

(* cleanup(): the whole body of the range loop for one entry *)
Theorem ast_cleanup_entry_correct : forall e n now,
  run_cleanup_entry cleanup_entry_var cleanup_entry_body e n now = Some (if keep e now then Some e else None).
Proof.
  intros [l tk] n now. unfold run_cleanup_entry, cleanup_entry_body, cleanup_entry_var, keep. step.
  change gcTime with 1000000000.
  destruct (1000000000 <? elapsed now l); step; reflexivity.
Qed.

Corollary ast_cleanup_t_pointwise : forall t now a,
  cleanup_t t now a =
  match t a with
  | Some e => match run_cleanup_entry cleanup_entry_var cleanup_entry_body e 0 now with
              | Some r => r
              | None => None
              end
  | None => None
  end.
Proof.
  intros. unfold cleanup_t. destruct (t a) as [e|]; [|reflexivity].
  rewrite ast_cleanup_entry_correct. reflexivity.
Qed.

(* Histories: Arrive through the interpreted Allow; Gc is the model's pass (its per-entry test is the theorem above,
   the range loop itself and `return len(rate.table) == 0` are not interpreted). *)
Definition ast_step (gc : bool) (s : Model.state) (o : op) : option (Model.state * res) :=
  match o with
  | Arrive a now =>
      match run_allow_state allow_body s a now with
      | Some (s', d, _) => Some (s', Dec d)
      | None => None
      end
  | Gc now => Some (Model.step gc s (Gc now))
  end.

Fixpoint ast_run (gc : bool) (s : Model.state) (ops : list op) : option (Model.state * list res) :=
  match ops with
  | [] => Some (s, [])
  | o :: ops' =>
      match ast_step gc s o with
      | Some (s1, r) =>
          match ast_run gc s1 ops' with
          | Some (s2, rs) => Some (s2, r :: rs)
          | None => None
          end
      | None => None
      end
  end.

Theorem ast_run_correct : forall gc ops s, ast_run gc s ops = Some (run (Model.step gc) s ops).
Proof.
  intros gc ops; induction ops as [|o ops IH]; intros s; cbn [ast_run run]; [reflexivity|].
  assert (Hs : ast_step gc s o = Some (Model.step gc s o)).
  { destruct o as [a now|now]; [|reflexivity].
    unfold ast_step. rewrite ast_allow_state_correct. cbn [Model.step].
    destruct (allow s a now). reflexivity. }
  rewrite Hs. destruct (Model.step gc s o) as [s1 r]. rewrite IH.
  destruct (run (Model.step gc) s1 ops). reflexivity.
Qed.

(* smoke test of the executable interpreter (redundant with the theorems): burst of 5 then refusal, refill, gc *)
Example ast_burst :
  option_map snd (ast_run true empty
    [Arrive 7%N 0; Arrive 7%N 1; Arrive 7%N 2; Arrive 7%N 3; Arrive 7%N 4; Arrive 7%N 5;
     Arrive 7%N 50000005; Arrive 7%N 50000006; Gc 1050000006; Gc 1050000007])
  = Some [Dec true; Dec true; Dec true; Dec true; Dec true; Dec false; Dec true; Dec false; Len 1%N; Len 0%N].
Proof. vm_compute. reflexivity. Qed.

Print Assumptions ast_allow_correct.
Print Assumptions ast_allow_state_correct.
Print Assumptions ast_cleanup_cond_correct.
Print Assumptions ast_cleanup_entry_correct.
Print Assumptions ast_run_correct.
