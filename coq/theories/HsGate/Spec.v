(* Property C06 as a checker over OBSERVED traces: what the harness did (events
   with construction descriptors) and what the device was seen to do (emitted
   datagram descriptors, state snapshot through VerifPeer/IpcGet, index table).
   Nothing here runs the device model; the clauses are the sentences of the
   property.

   A peer snapshot is the list
     [pid; hs_state; hs_local; hs_remote; ts_hi; ts_mid; ts_lo; endpoint; rx; tx; lh;
      prev(present,local,remote,initiator); cur(..); next(..)]. *)
From WG Require Import Base.Prelude Gen.Constants Tai64n.Model HsGate.Model.
Local Open Scope N_scope.

Record obs := { o_out : list out; o_snap : list (list N); o_table : list tentry }.
(* s_hi: harness clock when the step had settled (e_now of the event is the harness clock
   just before the action), so the device acted at some instant in [e_now, s_hi]. *)
Record tstep := { s_ev : event; s_hi : N; s_obs : obs }.

Definition out_eqb (a b : out) : bool :=
  match a, b with
  | OInit t p s x, OInit t' p' s' x' => (t =? t') && (p =? p') && (s =? s') && (x =? x')
  | OResp t p s r o, OResp t' p' s' r' o' => (t =? t') && (p =? p') && (s =? s') && (r =? r') && Bool.eqb o o'
  | OTrans t p r l, OTrans t' p' r' l' => (t =? t') && (p =? p') && (r =? r') && (l =? l')
  | OCookie t r, OCookie t' r' => (t =? t') && (r =? r')
  | _, _ => false
  end.

Fixpoint list_eqb {A} (eqb : A -> A -> bool) (a b : list A) : bool :=
  match a, b with
  | [], [] => true
  | x :: a', y :: b' => eqb x y && list_eqb eqb a' b'
  | _, _ => false
  end.

Definition tentry_eqb (a b : tentry) : bool :=
  (t_idx a =? t_idx b) && (t_peer a =? t_peer b) && Bool.eqb (t_hs a) (t_hs b).
Definition subset (a b : list tentry) : bool := forallb (fun x => existsb (tentry_eqb x) b) a.
Definition table_eqb (a b : list tentry) : bool := subset a b && subset b a && (N.of_nat (length a) =? N.of_nat (length b)).

Definition same_state (a b : obs) : bool :=
  list_eqb (list_eqb N.eqb) (o_snap a) (o_snap b) && table_eqb (o_table a) (o_table b).

(* "a handshake the device has in progress": some peer is in state
   initiation-created with this local index. *)
Definition in_progress (prev : obs) (idx : N) : bool :=
  existsb (fun s => (nth 1 s 0 =? 1) && (nth 2 s 0 =? idx)) (o_snap prev).

(* First sentence of the property: such a message must be inert.
   bad_mac1: truncated/extended, foreign type word, altered below smac2 without
   recomputing MAC1, MAC1 keyed for somebody else — inert and SILENT whether or
   not the device is under load (nothing is said to a party that cannot produce
   a valid MAC1).
   bad_deep: valid MAC1 but an AEAD-protected field altered, or a response not
   addressed to a handshake in progress — inert when not under load (under load
   a cookie reply is the legitimate reaction to any valid-MAC1 message: C10). *)
Definition bad_mac1 (m : msg) : bool :=
  let k := m_kind m in
  negb (wire_type m =? type_of k)
  || negb (m_len m =? size_of k)
  || (negb (m_remac m) && covered_altered k m)
  || negb (m_mac1key m =? 0).

Definition bad_deep (prev : obs) (m : msg) : bool :=
  let k := m_kind m in
  altered k FEphemeral m || altered k FEncStatic m || altered k FEncTimestamp m || altered k FEmpty m
  || match k with KResp => negb (in_progress prev (m_receiver m)) | KInit => false end.

Definition bad (under_load : bool) (prev : obs) (m : msg) : bool :=
  bad_mac1 m || (negb under_load && bad_deep prev m).

(* An initiation the device emitted.  em_strict is cleared when the harness
   moved the peer's handshake times with the VerifShiftHandshakeTimes hook: the
   hook fakes the passage of RekeyTimeout without the clock advancing, so a
   later timestamp can only be required not to go backwards. *)
Record em := { em_p : N; em_seq : N; em_ts : N; em_strict : bool }.

Record sst := {
  acc : list (N * N * N);        (* accepted initiations: peer, timestamp, time (moved back by the shift hook) *)
  emitted : list em;             (* initiations the device emitted, newest first *)
  answered : list N;             (* sequence numbers that already produced a session *)
  nemit : N;
  prev : obs;
  sloaded : bool                 (* VerifForceUnderLoad in effect *)
}.

(* "at least 1/50 s has passed": the number the PROPERTY names, not the code's
   constant (C06_constants pins the latter to it).  An initiation answered at some
   instant <= s_hi after an earlier one was consumed at some instant >= its e_now
   is certainly inside the interval when s_hi - e_now_earlier < 1/50 s. *)
Definition prop_rate : N := ns_per_s / 50.

Definition resp_peer (o : list out) : option N :=
  match find (fun x => match x with OResp _ _ _ _ _ => true | _ => false end) o with
  | Some (OResp _ p _ _ _) => Some p
  | _ => None
  end.
Definition trans_peer (o : list out) : option N :=
  match o with OTrans _ p _ _ :: _ => Some p | _ => None end.

Definition latest_seq (l : list em) (p : N) : N :=
  match find (fun x => em_p x =? p) l with Some x => em_seq x | None => 0 end.

Fixpoint record_emitted (o : list out) (l : list em) (n : N) (bad6 : bool) : list em * N * bool :=
  match o with
  | [] => (l, n, bad6)
  | OInit _ p _ ts :: r =>
      let older := existsb (fun x => (em_p x =? p) &&
                                     (if em_strict x then ts <=? em_ts x else ts <? em_ts x)) l in
      record_emitted r ({| em_p := p; em_seq := n + 1; em_ts := ts; em_strict := true |} :: l) (n + 1) (bad6 || older)
  | _ :: r => record_emitted r l n bad6
  end.

Definition shift_spec (s : sst) (p d : N) (l : list em) (n : N) (o : obs) : sst :=
  {| acc := map (fun x => if fst (fst x) =? p then (fst x, snd x - d) else x) (acc s);
     emitted := map (fun x => if em_p x =? p then {| em_p := p; em_seq := em_seq x; em_ts := em_ts x; em_strict := false |} else x) l;
     answered := answered s; nemit := n; prev := o; sloaded := sloaded s |}.

Definition upd (s : sst) (a : list (N * N * N)) (l : list em) (ans : list N) (n : N) (o : obs) : sst :=
  {| acc := a; emitted := l; answered := ans; nemit := n; prev := o; sloaded := sloaded s |}.

(* the window step: helpers on snapshots / outputs *)
Definition snap_of (o : obs) (p : N) : list N :=
  match find (fun x => nth 0 x 0 =? p) (o_snap o) with Some x => x | None => [] end.
Definition has_trans (o : list out) : bool := existsb (fun x => match x with OTrans _ _ _ _ => true | _ => false end) o.
Definition has_init_for (o : list out) (p : N) : bool :=
  existsb (fun x => match x with OInit _ q _ _ => q =? p | _ => false end) o.
Definition has_resp_for (o : list out) (p : N) : bool :=
  existsb (fun x => match x with OResp _ q _ _ _ => q =? p | _ => false end) o.

Definition unstrict (l : list em) (p : N) : list em :=
  map (fun x => if em_p x =? p then {| em_p := p; em_seq := em_seq x; em_ts := em_ts x; em_strict := false |} else x) l.
Definition shift_acc (a : list (N * N * N)) (p d : N) : list (N * N * N) :=
  map (fun x => if fst (fst x) =? p then (fst x, snd x - d) else x) a.

(* clauses 2/3 for an initiation m answered (response for peer p left) at a step that began at now *)
Definition init_clauses (a : list (N * N * N)) (t : tstep) (m : msg) (p : N) : list N :=
  let mine := filter (fun x => fst (fst x) =? p) a in
  (if existsb (fun x => m_ts m <=? snd (fst x)) mine then [2] else []) ++
  (if existsb (fun x => s_hi t - snd x <? prop_rate) mine then [3] else []).

(* clause numbers:
   1 bad message not inert          2 accepted initiation not strictly newer
   3 accepted initiation inside 1/50 s   4 session for a superseded initiation
   5 second session for one initiation   6 emitted timestamps not strictly increasing *)
Definition clauses (s : sst) (t : tstep) : list N * sst :=
  let o := s_obs t in
  let now := e_now (s_ev t) in
  (* a time shift inside the window precedes the initiation sent there *)
  let '(acc0, em0) := match e_body (s_ev t) with
                      | BRespWindow _ _ (WShiftInitiate p d) => (shift_acc (acc s) p d, unstrict (emitted s) p)
                      | _ => (acc s, emitted s)
                      end in
  let '(em, n, bad6) := record_emitted (o_out o) em0 (nemit s) false in
  let c6 := if bad6 then [6] else [] in
  match e_body (s_ev t) with
  | BMsg src m =>
      let c1 := if bad (sloaded s) (prev s) m && negb (list_eqb out_eqb (o_out o) [] && same_state o (prev s)) then [1] else [] in
      match m_kind m with
      | KInit =>
          match resp_peer (o_out o) with
          | Some p =>
              (c1 ++ init_clauses (acc s) t m p ++ c6,
               upd s ((p, m_ts m, now) :: acc s) em (answered s) n o)
          | None => (c1 ++ c6, upd s (acc s) em (answered s) n o)
          end
      | KResp =>
          match trans_peer (o_out o) with
          | Some p =>
              let c4 := if m_ans m =? latest_seq (emitted s) p then [] else [4] in
              let c5 := if existsb (N.eqb (m_ans m)) (answered s) then [5] else [] in
              (c1 ++ c4 ++ c5 ++ c6,
               upd s (acc s) em (m_ans m :: answered s) n o)
          | None => (c1 ++ c6, upd s (acc s) em (answered s) n o)
          end
      end
  | BRespWindow src m w =>
      (* The response m reached the device, and while its worker was between consuming it and
         deriving the session, w happened.  If in w the device sent a newer initiation to the
         peer, or answered an initiation of the peer, the handshake m answers is superseded:
         no session may come out of m (no transport, no handshake completion, and — when only
         a new initiation left — the peer's key slots as before).  Otherwise m is judged as a
         sequential response. *)
      let p := m_static m in
      let sp := snap_of (prev s) p in
      let sn := snap_of o p in
      let superseded := has_init_for (o_out o) p || has_resp_for (o_out o) p in
      let completed := negb (nth 10 sn 0 =? nth 10 sp 0) in
      let slots_changed := negb (list_eqb N.eqb (skipn 11 sn) (skipn 11 sp)) in
      let session := has_trans (o_out o) || completed in
      let c4 := if superseded
                then (if session || (has_init_for (o_out o) p && slots_changed) then [4] else [])
                else (if session && negb (m_ans m =? latest_seq (emitted s) p) then [4] else []) in
      let c5 := if session && existsb (N.eqb (m_ans m)) (answered s) then [5] else [] in
      let ans' := if session then m_ans m :: answered s else answered s in
      let '(c23, acc1) := match w with
                          | WMsg _ m2 =>
                              match m_kind m2, resp_peer (o_out o) with
                              | KInit, Some q => (init_clauses acc0 t m2 q, (q, m_ts m2, now) :: acc0)
                              | _, _ => ([], acc0)
                              end
                          | _ => ([], acc0)
                          end in
      (c4 ++ c5 ++ c23 ++ c6, upd s acc1 em ans' n o)
  | BShift p d => (c6, shift_spec s p d em n o)
  | BLoad on => (c6, {| acc := acc s; emitted := em; answered := answered s; nemit := n; prev := o; sloaded := on |})
  | _ => (c6, upd s (acc s) em (answered s) n o)
  end.

Fixpoint holds_from (s : sst) (tr : list tstep) (i : N) : list (N * N) :=
  match tr with
  | [] => []
  | t :: r => let '(cs, s') := clauses s t in map (fun c => (i, c)) cs ++ holds_from s' r (i + 1)
  end.

Definition sinit (o0 : obs) : sst := {| acc := []; emitted := []; answered := []; nemit := 0; prev := o0; sloaded := false |}.

(* failing (step, clause) pairs; [] = the property holds on the trace *)
Definition violations (o0 : obs) (tr : list tstep) : list (N * N) := holds_from (sinit o0) tr 0.
Definition holdsb (o0 : obs) (tr : list tstep) : bool := match violations o0 tr with [] => true | _ => false end.
