(* Correspondence checker for C06: runs the slice model (HsGate.Model) over the
   scenarios the harness drove through the real device and compares outputs and
   state after every step (kind 1), and evaluates the property (HsGate.Spec) on
   the observed trace (kind 2).  Also the tai64n correspondence (VerifStamp and
   Timestamp.After against Tai64n.Model).  Depends on Model/Spec only. *)
From WG Require Import Base.Prelude Gen.Constants Tai64n.Model HsGate.Model HsGate.Spec.
From WG Require Import Base.Ints.
Local Open Scope N_scope.

Record cstep := { c_ev : event; c_hi : N; c_obs : obs }.
Record case := { c_cfg : list (N * N * N); c_now0 : N; c_obs0 : obs; c_steps : list cstep }.

(* ---------------------------------------------------------- projections *)
Definition b2n (b : bool) : N := if b then 1 else 0.
Definition proj_kp (k : option kp) : list N :=
  match k with Some x => [1; k_local x; k_remote x; b2n (k_init x)] | None => [0; 0; 0; 0] end.
Definition ts_words (v : N) : list N := [v / 2^64; (v / 2^32) mod 2^32; v mod 2^32].
Definition words_ts (a b c : N) : N := a * 2^64 + b * 2^32 + c.
(* a peer that is not configured (any more) is not visible through IpcGet / VerifPeer: all zero *)
Definition proj_peer (pid : N) (P : peer) : list N :=
  if p_conf P then
    [pid; hs_state P; hs_local P; hs_remote P] ++ ts_words (last_ts P) ++
    [endpoint P; rx P; tx P; lh P] ++ proj_kp (kprev P) ++ proj_kp (kcur P) ++ proj_kp (knext P)
  else pid :: repeat 0 22.
Definition proj (cfg : list (N * N * N)) (st : state) : list (list N) :=
  map (fun c => proj_peer (fst (fst c)) (peers st (fst (fst c)))) cfg.

(* ------------------------------------------------- oracle-resolved steps *)
Definition with_now (e : event) (t : N) : event := {| e_now := t; e_oidx := e_oidx e; e_body := e_body e |}.

Definition obs_init_ts (o : list out) : option N :=
  match find (fun x => match x with OInit _ _ _ _ => true | _ => false end) o with
  | Some (OInit _ _ _ ts) => Some ts
  | _ => None
  end.

(* The device's clock reading is only known to lie in [lo, hi]; for an emitted
   initiation it is pinned down (up to whitening) by the observed timestamp. *)
Definition eff_now (c : cstep) : N :=
  match e_body (c_ev c), obs_init_ts (o_out (c_obs c)) with
  | BTun _ _, Some ts | BInitiate _ _, Some ts | BRemoveRace _, Some ts | BRespWindow _ _ _, Some ts => N.max (e_now (c_ev c)) (unstamp (of_val ts))
  | _, _ => e_now (c_ev c)
  end.

Definition amb_lo : N := rate / 4.     (* 5 ms *)
Definition amb_hi : N := rate * 2.     (* 40 ms *)

Definition fix_times (st : state) (p now : N) (old_cons : N) : state :=
  let P := peers st p in
  set_peer st p
    {| p_conf := p_conf P; p_psk := p_psk P; hs_state := hs_state P; hs_local := hs_local P;
       hs_remote := hs_remote P; hs_seq := hs_seq P; last_ts := last_ts P;
       last_cons := N.max old_cons now; last_sent := now;
       kprev := kprev P; kcur := kcur P; knext := knext P; endpoint := endpoint P;
       rx := rx P; tx := tx P; lh := lh P; staged := staged P |}.

(* result: next model state, mismatch code (0 none, 1 outputs, 2 snapshot, 3 table, 4 clock bracket), ambiguous? *)
Definition agree (cfg : list (N * N * N)) (r : state * list out) (o : obs) : N :=
  if negb (list_eqb out_eqb (snd r) (o_out o)) then 1
  else if negb (list_eqb (list_eqb N.eqb) (proj cfg (fst r)) (o_snap o)) then 2
  else if negb (table_eqb (table (fst r)) (o_table o)) then 3 else 0.

Definition run_step (cfg : list (N * N * N)) (st : state) (c : cstep) : state * N * bool :=
  let now := eff_now c in
  let e := with_now (c_ev c) now in
  let r := step st e in
  let a := agree cfg r (c_obs c) in
  let a := if (a =? 0) && (c_hi c <? now) then 4 else a in
  match e_body e with
  | BMsg src m =>
      match m_kind m with
      | KInit =>
          let p := m_static m in
          let lc := last_cons (peers st p) in
          let gap := now - lc in
          if (amb_lo <=? gap) && (gap <=? amb_hi) then
            let now' := if gap <=? rate then lc + rate + 1 else lc in
            let r' := step st (with_now e now') in
            if list_eqb out_eqb (snd r) (snd r') then (fst r, a, false)
            else if a =? 0 then (fst r, 0, true)
            else
              let st' := match snd r' with [] => fst r' | _ => fix_times (fst r') p now lc end in
              (st', agree cfg (st', snd r') (c_obs c), true)
          else (fst r, a, false)
      | KResp => (fst r, a, false)
      end
  | _ => (fst r, a, false)
  end.

Fixpoint run_model (cfg : list (N * N * N)) (st : state) (cs : list cstep) (i : N) : list (N * N) :=
  match cs with
  | [] => []
  | c :: r =>
      let '(st', a, _) := run_step cfg st c in
      if a =? 0 then run_model cfg st' r (i + 1) else [(1, i * 8 + a)]
  end.

Definition check_case (k : case) : list (N * N) :=
  let st0 := init (c_cfg k) (c_now0 k) in
  let a0 := agree (c_cfg k) (st0, []) (c_obs0 k) in
  (if a0 =? 0 then run_model (c_cfg k) st0 (c_steps k) 0 else [(1, 7)]) ++
  map (fun v => (2, fst v * 8 + snd v))
      (violations (c_obs0 k) (map (fun c => {| s_ev := c_ev c; s_hi := c_hi c; s_obs := c_obs c |}) (c_steps k))).

(* ------------------------------------------------------------- tai64n K *)
Record tcase := { tc_s : N; tc_ns : N; tc_bytes : list N }.
Record acase := { ac_a : list N; ac_b : list N; ac_after : bool }.

Definition check_tai1 (t : tcase) : bool :=
  list_eqb N.eqb (encode (stamp (tc_s t * ns_per_s + tc_ns t))) (tc_bytes t).
Definition check_after1 (a : acase) : bool := Bool.eqb (after_bytes (ac_a a) (ac_b a)) (ac_after a).

Fixpoint idx_false {A} (f : A -> bool) (l : list A) (i : N) : list N :=
  match l with [] => [] | x :: r => (if f x then [] else [i]) ++ idx_false f r (i + 1) end.

Definition tai_base_idx : N := 1000000.
Definition after_base_idx : N := 2000000.

Fixpoint check_cases_from (ks : list case) (idx : N) : list (N * N * N) :=
  match ks with
  | [] => []
  | k :: ks' => map (fun p => (idx, fst p, snd p)) (check_case k) ++ check_cases_from ks' (idx + 1)
  end.

Definition check_cases (ks : list case) (ts : list tcase) (az : list acase) : list (N * N * N) :=
  check_cases_from ks 0 ++
  map (fun i => (tai_base_idx + i, 1, 0)) (idx_false check_tai1 ts 0) ++
  map (fun i => (after_base_idx + i, 1, 0)) (idx_false check_after1 az 0).

(* -------------------------------------------------------- branch histogram *)
(*  0 dropped: length        1 dropped: type            2 MAC1 fails
    3 static does not open   4 unknown initiator        5 timestamp does not open
    6 replay (ts <= last)    7 flood                    8 initiation accepted
    9 response unaddressed  10 response wrong state    11 transcript fails
   12 response accepted     13 tun -> initiation       14 tun -> spacing blocks
   15 tun -> transport      16 shift                   17 restart
   18 ambiguous flood steps 19 tun for unknown peer  20 valid MAC1 under load -> cookie reply
   21 under-load toggles    22 dropped at gate / MAC1 while under load
   23 concurrent SendHandshakeInitiation burst -> one initiation   24 burst blocked by spacing
   25 peer removed with a retransmit callback in flight
   26 window: response consumed, the in-window event supersedes the handshake (no session)
   27 window: response consumed, handshake untouched by the in-window event (session)
   28 window step whose response was not consumable (sequential) *)
Definition classify (st : state) (e : event) : nat :=
  match e_body e with
  | BMsg src m =>
      match gate (wire_type m) (m_len m) with
      | None => if loaded st then 22%nat else if wire_type m =? type_of (m_kind m) then 0%nat else 1%nat
      | Some k =>
          if negb (mac1_ok k m) then (if loaded st then 22%nat else 2%nat) else
          if loaded st then 20%nat else
          match k with
          | KInit =>
              if negb (static_opens m) then 3%nat else
              let P := peers st (m_static m) in
              if negb (p_conf P) then 4%nat else
              if negb (timestamp_opens m) then 5%nat else
              if negb (last_ts P <? m_ts m) then 6%nat else
              if e_now e - last_cons P <=? rate then 7%nat else 8%nat
          | KResp =>
              match lookup (table st) (m_receiver m) with
              | None => 9%nat
              | Some t =>
                  if negb (t_hs t) then 9%nat else
                  let P := peers st (t_peer t) in
                  if negb (hs_state P =? 1) then 10%nat else
                  if negb (transcript_ok P (t_peer t) m) then 11%nat else 12%nat
              end
          end
      end
  | BTun p _ =>
      let P := peers st p in
      if negb (p_conf P) then 19%nat else
      match kcur P with
      | Some _ => 15%nat
      | None => if e_now e - last_sent P <? RekeyTimeout then 14%nat else 13%nat
      end
  | BShift _ _ => 16%nat
  | BRestart => 17%nat
  | BLoad _ => 21%nat
  | BRemoveRace _ => 25%nat
  | BInitiate p _ => if e_now e - last_sent (peers st p) <? RekeyTimeout then 24%nat else 23%nat
  | BRespWindow src m w =>
      match resp_phase1 st m with
      | None => 28%nat
      | Some p =>
          let st1 := set_peer st p (with_response_consumed (peers st p) src m) in
          if hs_state (peers (fst (wact_step st1 (e_now e) (e_oidx e) w)) p) =? 4 then 27%nat else 26%nat
      end
  end.

Fixpoint bump (l : list N) (i : nat) : list N :=
  match l, i with
  | [], _ => []
  | x :: t, O => (x + 1) :: t
  | x :: t, S j => x :: bump t j
  end.

Fixpoint stats_steps (cfg : list (N * N * N)) (st : state) (cs : list cstep) (h : list N) : list N :=
  match cs with
  | [] => h
  | c :: r =>
      let '(st', _, amb) := run_step cfg st c in
      let h1 := bump h (classify st (with_now (c_ev c) (eff_now c))) in
      stats_steps cfg st' r (if amb then bump h1 18 else h1)
  end.

Definition stats (ks : list case) : list N :=
  fold_left (fun h k => stats_steps (c_cfg k) (init (c_cfg k) (c_now0 k)) (c_steps k) h) ks (repeat 0 29).

(* ------------------------------------------- builders used by case files *)
(* Every number in a generated case file is a primitive-int literal. *)
Definition I := n_of_int.
Definition fcode (c : N) : field :=
  match c with
  | 0 => FType | 1 => FSender | 2 => FReceiver | 3 => FEphemeral | 4 => FEncStatic
  | 5 => FEncTimestamp | 6 => FEmpty | 7 => FMac1 | 8 => FMac2 | _ => FBeyond
  end.
Definition fl (b : Uint63.int) : mut := Flip (I b).
Definition sb (f : Uint63.int) : mut := Subst (fcode (I f)).
Definition sty (v : Uint63.int) : mut := SetType (I v).

Definition mk_msg (kindi len : Uint63.int) (muts : list mut) (remac : bool)
  (mac1key sender receiver static to psk eph t0 t1 t2 ans : Uint63.int) : msg :=
  {| m_kind := if I kindi =? 1 then KInit else KResp; m_len := I len; m_muts := muts; m_remac := remac;
     m_mac1key := I mac1key; m_sender := I sender; m_receiver := I receiver; m_static := I static;
     m_to := I to; m_psk := I psk; m_eph := I eph; m_ts := words_ts (I t0) (I t1) (I t2); m_ans := I ans |}.

Definition oi (to p sender t0 t1 t2 : Uint63.int) : out := OInit (I to) (I p) (I sender) (words_ts (I t0) (I t1) (I t2)).
Definition orr (to p sender receiver : Uint63.int) (opens : bool) : out := OResp (I to) (I p) (I sender) (I receiver) opens.
Definition ot (to p receiver len : Uint63.int) : out := OTrans (I to) (I p) (I receiver) (I len).
Definition oc (to receiver : Uint63.int) : out := OCookie (I to) (I receiver).
Definition te (idx p : Uint63.int) (hs : bool) : tentry := {| t_idx := I idx; t_peer := I p; t_hs := hs |}.
Definition ob (o : list out) (snap : list (list Uint63.int)) (t : list tentry) : obs :=
  {| o_out := o; o_snap := map (map I) snap; o_table := t |}.

Definition bm (src : Uint63.int) (m : msg) : body := BMsg (I src) m.
Definition bt (p inner : Uint63.int) : body := BTun (I p) (I inner).
Definition bs (p d : Uint63.int) : body := BShift (I p) (I d).
Definition br : body := BRestart.
Definition bl (on : bool) : body := BLoad on.
Definition brr (p : Uint63.int) : body := BRemoveRace (I p).
Definition bi (p k : Uint63.int) : body := BInitiate (I p) (I k).
Definition wi (p k : Uint63.int) : wact := WInitiate (I p) (I k).
Definition wsi (p d : Uint63.int) : wact := WShiftInitiate (I p) (I d).
Definition wm (src : Uint63.int) (m : msg) : wact := WMsg (I src) m.
Definition bw (src : Uint63.int) (m : msg) (w : wact) : body := BRespWindow (I src) m w.
Definition cs (lo hi oidx : Uint63.int) (b : body) (o : obs) : cstep :=
  {| c_ev := {| e_now := I lo; e_oidx := I oidx; e_body := b |}; c_hi := I hi; c_obs := o |}.
Definition pc (k psk ep : Uint63.int) : N * N * N := (I k, I psk, I ep).
Definition mk_case (cfg : list (N * N * N)) (now0 : Uint63.int) (o0 : obs) (steps : list cstep) : case :=
  {| c_cfg := cfg; c_now0 := I now0; c_obs0 := o0; c_steps := steps |}.
Definition tcs (s ns : Uint63.int) (bytes : list Uint63.int) : tcase :=
  {| tc_s := I s; tc_ns := I ns; tc_bytes := map I bytes |}.
Definition acs (a b : list Uint63.int) (r : bool) : acase :=
  {| ac_a := map I a; ac_b := map I b; ac_after := r |}.
