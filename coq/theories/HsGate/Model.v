(* Slice model of the handshake receive path of wireguard-go at the level of
   construction descriptors (property C06).  Mirrors, branch by branch:

     device/receive.go   RoutineReceiveIncoming  (size/type gate)
                         RoutineHandshake        (MAC1 gate, not under load, Consume*, reply)
     device/cookie.go    CheckMAC1
     device/noise-protocol.go  ConsumeMessageInitiation, CreateMessageResponse,
                         ConsumeMessageResponse, CreateMessageInitiation, BeginSymmetricSession
     device/send.go      SendHandshakeInitiation (RekeyTimeout spacing), SendHandshakeResponse,
                         SendStagedPackets / SendKeepalive (what leaves after a response)
     device/peer.go      Start / Stop (restart), device/indextable.go

   A message is not a byte string but the description of how the harness built
   it (which keys, which indices, which timestamp, what was altered afterwards);
   whether it authenticates is decided here.  Values the device draws at random
   (indices) are oracle inputs of the event.  Time is an input of every event
   (nanoseconds since the Unix epoch, the device's clock reading).  No proofs. *)
From WG Require Import Base.Prelude Gen.Constants Tai64n.Model.
Local Open Scope N_scope.

(* ------------------------------------------------------------------ layout *)
Inductive kind := KInit | KResp.
Inductive field :=
  FType | FSender | FReceiver | FEphemeral | FEncStatic | FEncTimestamp | FEmpty | FMac1 | FMac2 | FBeyond.

Definition kind_eqb (a b : kind) : bool :=
  match a, b with KInit, KInit | KResp, KResp => true | _, _ => false end.

Definition size_of (k : kind) : N :=
  match k with KInit => MessageInitiationSize | KResp => MessageResponseSize end.
Definition type_of (k : kind) : N :=
  match k with KInit => MessageInitiationType | KResp => MessageResponseType end.

Definition mac_size : N := 16.            (* blake2s.Size128 *)
Definition smac2 (k : kind) : N := size_of k - mac_size.
Definition smac1 (k : kind) : N := smac2 k - mac_size.

(* struct layouts of MessageInitiation / MessageResponse (unmarshal offsets) *)
Definition field_of_byte (k : kind) (b : N) : field :=
  if b <? 4 then FType else
  if b <? 8 then FSender else
  match k with
  | KInit =>
      if b <? 40 then FEphemeral else
      if b <? 88 then FEncStatic else
      if b <? smac1 KInit then FEncTimestamp else
      if b <? smac2 KInit then FMac1 else
      if b <? size_of KInit then FMac2 else FBeyond
  | KResp =>
      if b <? 12 then FReceiver else
      if b <? 44 then FEphemeral else
      if b <? smac1 KResp then FEmpty else
      if b <? smac2 KResp then FMac1 else
      if b <? size_of KResp then FMac2 else FBeyond
  end.

Definition field_eqb (a b : field) : bool :=
  match a, b with
  | FType, FType | FSender, FSender | FReceiver, FReceiver | FEphemeral, FEphemeral
  | FEncStatic, FEncStatic | FEncTimestamp, FEncTimestamp | FEmpty, FEmpty
  | FMac1, FMac1 | FMac2, FMac2 | FBeyond, FBeyond => true
  | _, _ => false
  end.

(* Alterations applied to the bytes after the builder computed the MACs. *)
Inductive mut :=
| Flip (bit : N)        (* bit index in the datagram: byte bit/8, bit (bit mod 8) of it *)
| Subst (f : field)     (* field f (not the type) overwritten with different bytes *)
| SetType (v : N).      (* the 32-bit little-endian type word overwritten with v *)

Definition mut_field (k : kind) (mu : mut) : field :=
  match mu with
  | Flip b => field_of_byte k (b / 8)
  | Subst f => f
  | SetType _ => FType
  end.

(* How a handshake message was built. *)
Record msg := {
  m_kind : kind;
  m_len : N;            (* length on the wire (truncated / zero-extended when <> size_of) *)
  m_muts : list mut;
  m_remac : bool;       (* MAC1 recomputed (for m_mac1key) after the alterations *)
  m_mac1key : N;        (* static key id MAC1 was computed for; 0 = the device *)
  m_sender : N;         (* sender index on the wire *)
  m_receiver : N;       (* response: receiver index on the wire *)
  m_static : N;         (* static key id of the builder (initiator resp. responder) *)
  m_to : N;             (* initiation: key id of the addressed responder, 0 = the device *)
  m_psk : N;            (* preshared key id the builder used *)
  m_eph : N;            (* id of the builder's ephemeral (a replay carries the same id) *)
  m_ts : N;             (* initiation: TAI64N timestamp as a 96-bit number *)
  m_ans : N             (* response: sequence number of the device initiation it answers *)
}.

(* The type word the receiver reads: binary.LittleEndian.Uint32(packet[:4]). *)
Definition apply_type (t : N) (mu : mut) : N :=
  match mu with
  | Flip b => if b <? 32 then N.lxor t (2 ^ b) else t
  | SetType v => v
  | Subst _ => t
  end.
Definition wire_type (m : msg) : N := fold_left apply_type (m_muts m) (type_of (m_kind m)).

(* RoutineReceiveIncoming: which handshake parser the datagram reaches.
   Types 3 (cookie reply) and 4 (transport) leave this slice: bytes built as an
   initiation/response are not a cookie reply or transport message under any
   key the device holds, so nothing happens (exercised by the harness). *)
Definition gate (ty len : N) : option kind :=
  if len <? MinMessageSize then None
  else if ty =? MessageInitiationType then (if len =? MessageInitiationSize then Some KInit else None)
  else if ty =? MessageResponseType then (if len =? MessageResponseSize then Some KResp else None)
  else None.

Definition altered (k : kind) (f : field) (m : msg) : bool :=
  existsb (fun mu => field_eqb (mut_field k mu) f) (m_muts m).

(* Any alteration below smac2 (the bytes MAC1 covers, or MAC1 itself). *)
Definition covered (f : field) : bool :=
  match f with FMac2 | FBeyond => false | _ => true end.
Definition covered_altered (k : kind) (m : msg) : bool :=
  existsb (fun mu => covered (mut_field k mu)) (m_muts m).

(* CookieChecker.CheckMAC1 *)
Definition mac1_ok (k : kind) (m : msg) : bool :=
  kind_eqb k (m_kind m) && (m_mac1key m =? 0) && (m_remac m || negb (covered_altered k m)).

(* ------------------------------------------------------------------- state *)
Record kp := { k_local : N; k_remote : N; k_init : bool }.

Record peer := {
  p_conf : bool;          (* configured and running *)
  p_psk : N;
  hs_state : N;           (* 0 zeroed 1 initiationCreated 2 initiationConsumed 3 responseCreated 4 responseConsumed *)
  hs_local : N;
  hs_remote : N;
  hs_seq : N;             (* which device initiation the handshake transcript belongs to *)
  last_ts : N;            (* handshake.lastTimestamp *)
  last_cons : N;          (* handshake.lastInitiationConsumption *)
  last_sent : N;          (* handshake.lastSentHandshake *)
  kprev : option kp; kcur : option kp; knext : option kp;
  endpoint : N;           (* address id *)
  rx : N; tx : N;
  lh : N;                 (* number of updates of lastHandshakeNano *)
  staged : list N         (* inner lengths of staged packets *)
}.

Record tentry := { t_idx : N; t_peer : N; t_hs : bool }.

Record state := {
  peers : N -> peer;
  table : list tentry;
  nseq : N;               (* initiations created by the device so far *)
  loaded : bool           (* device.IsUnderLoad() (forced by the VerifForceUnderLoad hook) *)
}.

Definition set_peer (st : state) (p : N) (P : peer) : state :=
  {| peers := fun q => if q =? p then P else peers st q; table := table st; nseq := nseq st; loaded := loaded st |}.
Definition set_table (st : state) (t : list tentry) : state :=
  {| peers := peers st; table := t; nseq := nseq st; loaded := loaded st |}.

Definition lookup (t : list tentry) (i : N) : option tentry := find (fun e => t_idx e =? i) t.
Definition tdelete (t : list tentry) (i : N) : list tentry := filter (fun e => negb (t_idx e =? i)) t.
Definition tdelete_kp (t : list tentry) (k : option kp) : list tentry :=
  match k with Some x => tdelete t (k_local x) | None => t end.
(* NewIndexForHandshake with the drawn index i *)
Definition tadd_hs (t : list tentry) (i p : N) : list tentry := {| t_idx := i; t_peer := p; t_hs := true |} :: t.
(* SwapIndexForKeypair *)
Definition tswap (t : list tentry) (i : N) : list tentry :=
  map (fun e => if t_idx e =? i then {| t_idx := i; t_peer := t_peer e; t_hs := false |} else e) t.

(* ----------------------------------------------------------------- outputs *)
Inductive out :=
| OInit (to p sender ts : N)                          (* initiation for peer p, MAC1 under p's key *)
| OResp (to p sender receiver : N) (opens : bool)     (* response; opens = the builder of the initiation can complete *)
| OTrans (to p receiver len : N)                      (* transport under p's newest session *)
| OCookie (to receiver : N).                          (* cookie reply (only under load, only after a valid MAC1) *)

Definition rate := HandshakeInitationRate.

(* 16 header + padded content + 16 tag; keepalive = 32 *)
Definition transport_len (inner : N) : N := MessageTransportSize + ((inner + PaddingMultiple - 1) / PaddingMultiple) * PaddingMultiple.

(* ---------------------------------------------------------- initiation path *)
Definition static_opens (m : msg) : bool :=
  (m_to m =? 0) && negb (altered KInit FEphemeral m) && negb (altered KInit FEncStatic m).
Definition timestamp_opens (m : msg) : bool := negb (altered KInit FEncTimestamp m).

Definition with_responder_session (P : peer) (now src oidx : N) (m : msg) : peer :=
  {| p_conf := p_conf P; p_psk := p_psk P;
     hs_state := 0; hs_local := 0; hs_remote := m_sender m; hs_seq := hs_seq P;
     last_ts := m_ts m; last_cons := N.max (last_cons P) now; last_sent := now;
     kprev := None; kcur := kcur P; knext := Some {| k_local := oidx; k_remote := m_sender m; k_init := false |};
     endpoint := src; rx := rx P + m_len m; tx := tx P + MessageResponseSize;
     lh := lh P; staged := staged P |}.

Definition consume_initiation (st : state) (now src oidx : N) (m : msg) : state * list out :=
  if negb (static_opens m) then (st, []) else
  let p := m_static m in
  let P := peers st p in
  if negb (p_conf P) then (st, []) else
  if negb (timestamp_opens m) then (st, []) else
  if negb (last_ts P <? m_ts m) then (st, []) else                      (* replay *)
  if now - last_cons P <=? rate then (st, []) else                       (* flood *)
  (* CreateMessageResponse: Delete(localIndex); NewIndexForHandshake;
     BeginSymmetricSession (responder): swap, next := new, previous := nil *)
  let t1 := tdelete (table st) (hs_local P) in
  let t2 := tswap (tadd_hs t1 oidx p) oidx in
  let t3 := tdelete_kp (tdelete_kp t2 (knext P)) (kprev P) in
  let P' := with_responder_session P now src oidx m in
  (set_table (set_peer st p P') t3,
   [OResp src p oidx (m_sender m) (m_psk m =? p_psk P)]).

(* ------------------------------------------------------------ response path *)
Definition transcript_ok (P : peer) (p : N) (m : msg) : bool :=
  (m_ans m =? hs_seq P) && (m_static m =? p) && (m_psk m =? p_psk P) &&
  negb (altered KResp FEphemeral m) && negb (altered KResp FEmpty m).

Definition sum (l : list N) : N := fold_right N.add 0 l.

Definition flush_lens (P : peer) : list N :=
  match staged P with [] => [MessageKeepaliveSize] | l => map transport_len l end.

Definition with_initiator_session (P : peer) (src : N) (m : msg) : peer :=
  let k := {| k_local := hs_local P; k_remote := m_sender m; k_init := true |} in
  {| p_conf := p_conf P; p_psk := p_psk P;
     hs_state := 0; hs_local := 0; hs_remote := m_sender m; hs_seq := hs_seq P;
     last_ts := last_ts P; last_cons := last_cons P; last_sent := last_sent P;
     kprev := match knext P with Some n => Some n | None => kcur P end;
     kcur := Some k; knext := None;
     endpoint := src; rx := rx P + m_len m; tx := tx P + sum (flush_lens P);
     lh := lh P + 1; staged := [] |}.

Definition consume_response (st : state) (src : N) (m : msg) : state * list out :=
  match lookup (table st) (m_receiver m) with
  | None => (st, [])
  | Some e =>
      if negb (t_hs e) then (st, []) else
      let p := t_peer e in
      let P := peers st p in
      if negb (hs_state P =? 1) then (st, []) else
      if negb (transcript_ok P p m) then (st, []) else
      (* BeginSymmetricSession (initiator) *)
      let t1 := tswap (table st) (hs_local P) in
      let t2 := match knext P with
                | Some _ => tdelete_kp t1 (kcur P)
                | None => t1
                end in
      let t3 := tdelete_kp t2 (kprev P) in
      let P' := with_initiator_session P src m in
      (set_table (set_peer st p P') t3,
       map (fun l => OTrans src p (m_sender m) l) (flush_lens P))
  end.

Definition recv (st : state) (now src oidx : N) (m : msg) : state * list out :=
  match gate (wire_type m) (m_len m) with
  | None => (st, [])
  | Some k =>
      if negb (mac1_ok k m) then (st, []) else
      (* if device.IsUnderLoad(): the messages of this slice never carry a valid
         MAC2 (the harness never uses a cookie), so CheckMAC2 fails and
         SendHandshakeCookie answers with a cookie reply for the sender index on
         the wire; nothing else happens (C10 owns this path). *)
      if loaded st then (st, [OCookie src (m_sender m)]) else
      match k with
      | KInit => consume_initiation st now src oidx m
      | KResp => consume_response st src m
      end
  end.

(* ------------------------------------------------------------- TUN packets *)
Definition stamp_val (t : N) : N := val (stamp t).

Definition set_staged (P : peer) (l : list N) (txadd : N) : peer :=
  {| p_conf := p_conf P; p_psk := p_psk P; hs_state := hs_state P; hs_local := hs_local P;
     hs_remote := hs_remote P; hs_seq := hs_seq P; last_ts := last_ts P; last_cons := last_cons P;
     last_sent := last_sent P; kprev := kprev P; kcur := kcur P; knext := knext P;
     endpoint := endpoint P; rx := rx P; tx := tx P + txadd; lh := lh P; staged := l |}.

Definition with_initiation (P : peer) (now oidx seq : N) : peer :=
  {| p_conf := p_conf P; p_psk := p_psk P; hs_state := 1; hs_local := oidx;
     hs_remote := hs_remote P; hs_seq := seq; last_ts := last_ts P; last_cons := last_cons P;
     last_sent := now; kprev := kprev P; kcur := kcur P; knext := knext P;
     endpoint := endpoint P; rx := rx P; tx := tx P + MessageInitiationSize; lh := lh P; staged := staged P |}.

(* SendHandshakeInitiation(false) for peer p whose record (possibly with a
   freshly staged packet) is P1: the RekeyTimeout spacing test (made under the
   read lock and again under the write lock, so that of several concurrent
   callers exactly one proceeds), then CreateMessageInitiation. *)
Definition send_initiation (st : state) (now oidx p : N) (P1 : peer) : state * list out :=
  if now - last_sent P1 <? RekeyTimeout then (set_peer st p P1, []) else
  let seq := nseq st + 1 in
  let t1 := tadd_hs (tdelete (table st) (hs_local P1)) oidx p in
  ({| peers := peers (set_peer st p (with_initiation P1 now oidx seq)); table := t1; nseq := seq; loaded := loaded st |},
   [OInit (endpoint P1) p oidx (stamp_val now)]).

(* RoutineReadFromTUN -> StagePackets; SendStagedPackets *)
Definition tun_packet (st : state) (now oidx p inner : N) : state * list out :=
  let P := peers st p in
  if negb (p_conf P) then (st, []) else
  let P1 := set_staged P (staged P ++ [inner]) 0 in
  match kcur P with
  | Some k =>
      let lens := map transport_len (staged P1) in
      (set_peer st p (set_staged P1 [] (sum lens)), map (fun l => OTrans (endpoint P) p (k_remote k) l) lens)
  | None => send_initiation st now oidx p P1
  end.

(* --------------------------------------------------------------- hooks etc. *)
Definition shift_peer (P : peer) (d : N) : peer :=
  {| p_conf := p_conf P; p_psk := p_psk P; hs_state := hs_state P; hs_local := hs_local P;
     hs_remote := hs_remote P; hs_seq := hs_seq P; last_ts := last_ts P; last_cons := last_cons P - d;
     last_sent := last_sent P - d; kprev := kprev P; kcur := kcur P; knext := knext P;
     endpoint := endpoint P; rx := rx P; tx := tx P; lh := lh P; staged := staged P |}.

(* Peer.Stop (ZeroAndFlushAll) followed by Peer.Start *)
Definition restart_peer (P : peer) (now : N) : peer :=
  {| p_conf := p_conf P; p_psk := p_psk P; hs_state := 0; hs_local := 0;
     hs_remote := hs_remote P; hs_seq := hs_seq P; last_ts := last_ts P; last_cons := last_cons P;
     last_sent := now - (RekeyTimeout + ns_per_s); kprev := None; kcur := None; knext := None;
     endpoint := endpoint P; rx := rx P; tx := tx P; lh := lh P; staged := [] |}.

(* Peer.Stop as part of RemovePeer: the peer is no longer configured; keys, handshake
   and staged packets are wiped (ZeroAndFlushAll runs LAST in Stop, after timersStop
   has waited for every timer callback that was already running). *)
Definition remove_peer (P : peer) : peer :=
  {| p_conf := false; p_psk := p_psk P; hs_state := 0; hs_local := 0;
     hs_remote := hs_remote P; hs_seq := hs_seq P; last_ts := last_ts P; last_cons := last_cons P;
     last_sent := last_sent P; kprev := None; kcur := None; knext := None;
     endpoint := endpoint P; rx := rx P; tx := tx P; lh := lh P; staged := [] |}.


(* ------------------------------------- event inside the response window *)
(* RoutineHandshake, MessageResponseType: ConsumeMessageResponse and BeginSymmetricSession
   are two separately locked steps of the handshake worker.  In between (where the worker
   logs "Received handshake response") the retransmit timer / SendHandshakeInitiation or a
   second handshake worker can run.  wact = what runs in that window. *)
Inductive wact :=
| WInitiate (p k : N)            (* SendHandshakeInitiation(false) for peer p (k callers) *)
| WShiftInitiate (p d : N)       (* VerifShiftHandshakeTimes(p, d), then SendHandshakeInitiation(false) *)
| WMsg (src2 : N) (m2 : msg).    (* another datagram goes through a second handshake worker *)

(* ConsumeMessageResponse succeeded: state := responseConsumed, remoteIndex := sender;
   SetEndpointFromPacket *)
Definition with_response_consumed (P : peer) (src : N) (m : msg) : peer :=
  {| p_conf := p_conf P; p_psk := p_psk P; hs_state := 4; hs_local := hs_local P;
     hs_remote := m_sender m; hs_seq := hs_seq P; last_ts := last_ts P; last_cons := last_cons P;
     last_sent := last_sent P; kprev := kprev P; kcur := kcur P; knext := knext P;
     endpoint := src; rx := rx P; tx := tx P; lh := lh P; staged := staged P |}.

Definition add_rx (P : peer) (n : N) : peer :=
  {| p_conf := p_conf P; p_psk := p_psk P; hs_state := hs_state P; hs_local := hs_local P;
     hs_remote := hs_remote P; hs_seq := hs_seq P; last_ts := last_ts P; last_cons := last_cons P;
     last_sent := last_sent P; kprev := kprev P; kcur := kcur P; knext := knext P;
     endpoint := endpoint P; rx := rx P + n; tx := tx P; lh := lh P; staged := staged P |}.

(* phase 1: the tests of recv + consume_response; Some p = the response is consumed for peer p *)
Definition resp_phase1 (st : state) (m : msg) : option N :=
  match gate (wire_type m) (m_len m) with
  | Some KResp =>
      if negb (mac1_ok KResp m) then None else
      if loaded st then None else
      match lookup (table st) (m_receiver m) with
      | None => None
      | Some e =>
          if negb (t_hs e) then None else
          let p := t_peer e in
          let P := peers st p in
          if negb (hs_state P =? 1) then None else
          if negb (transcript_ok P p m) then None else Some p
      end
  | _ => None
  end.

(* phase 2: the in-window action, with the functions of the sequential events *)
Definition wact_step (st : state) (now oidx : N) (w : wact) : state * list out :=
  match w with
  | WInitiate p _ =>
      if p_conf (peers st p) then send_initiation st now oidx p (peers st p) else (st, [])
  | WShiftInitiate p d =>
      if p_conf (peers st p) then send_initiation st now oidx p (shift_peer (peers st p) d) else (st, [])
  | WMsg src2 m2 => recv st now src2 oidx m2
  end.

(* phase 3, handshake still responseConsumed: BeginSymmetricSession (initiator), timers,
   SendKeepalive / staged packets — the tail of consume_response *)
Definition begin_initiator (st : state) (p src : N) (m : msg) : state * list out :=
  let P := peers st p in
  let t1 := tswap (table st) (hs_local P) in
  let t2 := match knext P with
            | Some _ => tdelete_kp t1 (kcur P)
            | None => t1
            end in
  let t3 := tdelete_kp t2 (kprev P) in
  (set_table (set_peer st p (with_initiator_session P src m)) t3,
   map (fun l => OTrans src p (m_sender m) l) (flush_lens P)).

(* The response m is consumed, w happens, then the worker goes on: rxBytes, and
   BeginSymmetricSession — which fails with "invalid state" (nothing more happens)
   unless the handshake is still in state responseConsumed.  When the response is
   not consumable the event is the sequential one: recv of m, then w. *)
Definition resp_window (st : state) (now src oidx : N) (m : msg) (w : wact) : state * list out :=
  match resp_phase1 st m with
  | None =>
      let r1 := recv st now src oidx m in
      let r2 := wact_step (fst r1) now oidx w in
      (fst r2, snd r1 ++ snd r2)
  | Some p =>
      let st1 := set_peer st p (with_response_consumed (peers st p) src m) in
      let r2 := wact_step st1 now oidx w in
      let st2 := fst r2 in
      if hs_state (peers st2 p) =? 4 then
        let r3 := begin_initiator st2 p src m in
        (fst r3, snd r2 ++ snd r3)
      else (set_peer st2 p (add_rx (peers st2 p) (m_len m)), snd r2)
  end.

Inductive body :=
| BMsg (src : N) (m : msg)         (* datagram from address src *)
| BTun (p inner : N)               (* TUN packet routed to peer p, inner length *)
| BShift (p d : N)                 (* VerifShiftHandshakeTimes *)
| BRestart                         (* device.Down(); device.Up() *)
| BLoad (on : bool)                (* VerifForceUnderLoad(10 s) / VerifForceUnderLoad(0) *)
| BRemoveRace (p : N)              (* device.RemovePeer(p) while the peer's retransmit-handshake timer callback is
                                      already running (parked on the static identity, as during a private_key
                                      update): timersStop waits for it, so its initiation is created and sent
                                      first and everything it created is wiped afterwards *)
| BRespWindow (src : N) (m : msg) (w : wact)
                                   (* datagram m (a response) from src whose handshake worker is overtaken by w
                                      between ConsumeMessageResponse and BeginSymmetricSession *)
| BInitiate (p k : N).             (* k concurrent calls of SendHandshakeInitiation(false) for peer p (the timer /
                                      keep-fresh / TUN callers): they are serialised by handshake.mutex, the first
                                      sets lastSentHandshake and the others then fail the spacing test, so the
                                      effect is that of one call whatever k >= 1 is *)

Record event := { e_now : N; e_oidx : N; e_body : body }.

Definition step (st : state) (e : event) : state * list out :=
  match e_body e with
  | BMsg src m => recv st (e_now e) src (e_oidx e) m
  | BTun p inner => tun_packet st (e_now e) (e_oidx e) p inner
  | BShift p d => (if p_conf (peers st p) then set_peer st p (shift_peer (peers st p) d) else st, [])
  | BRestart =>
      ({| peers := fun q => if p_conf (peers st q) then restart_peer (peers st q) (e_now e) else peers st q;
          table := []; nseq := nseq st; loaded := loaded st |}, [])
  | BInitiate p k =>
      if p_conf (peers st p) then send_initiation st (e_now e) (e_oidx e) p (peers st p) else (st, [])
  | BRemoveRace p =>
      if p_conf (peers st p) then
        let r := send_initiation st (e_now e) (e_oidx e) p (peers st p) in
        let st1 := fst r in
        ({| peers := fun q => if q =? p then remove_peer (peers st1 p) else peers st1 q;
            table := filter (fun t => negb (t_peer t =? p)) (table st1);
            nseq := nseq st1; loaded := loaded st1 |}, snd r)
      else (st, [])
  | BLoad on => ({| peers := peers st; table := table st; nseq := nseq st; loaded := on |}, [])
  | BRespWindow src m w => resp_window st (e_now e) src (e_oidx e) m w
  end.

(* Initial state: peers as configured through IpcSet, then Up at time now0. *)
Definition no_peer : peer :=
  {| p_conf := false; p_psk := 0; hs_state := 0; hs_local := 0; hs_remote := 0; hs_seq := 0;
     last_ts := 0; last_cons := 0; last_sent := 0; kprev := None; kcur := None; knext := None;
     endpoint := 0; rx := 0; tx := 0; lh := 0; staged := [] |}.

Definition new_peer (psk ep now0 : N) : peer :=
  {| p_conf := true; p_psk := psk; hs_state := 0; hs_local := 0; hs_remote := 0; hs_seq := 0;
     last_ts := 0; last_cons := 0; last_sent := now0 - (RekeyTimeout + ns_per_s);
     kprev := None; kcur := None; knext := None;
     endpoint := ep; rx := 0; tx := 0; lh := 0; staged := [] |}.

(* cfg: list of (key id, psk id, endpoint id) *)
Fixpoint init_peers (cfg : list (N * N * N)) (now0 : N) : N -> peer :=
  match cfg with
  | [] => fun _ => no_peer
  | (k, psk, ep) :: r => fun q => if q =? k then new_peer psk ep now0 else init_peers r now0 q
  end.

Definition init (cfg : list (N * N * N)) (now0 : N) : state :=
  {| peers := init_peers cfg now0; table := []; nseq := 0; loaded := false |}.
