(* Theorems about the handshake-gate slice model (property C06). *)
From Coq Require Import Sorting.Sorted.
From WG Require Import Base.Prelude Gen.Constants Tai64n.Model Tai64n.Proofs HsGate.Model.
Local Open Scope N_scope.

(* -------------------------------------------------------------- tactics *)
Ltac bm :=
  match goal with
  | |- context [match ?x with _ => _ end] => destruct x eqn:?
  end.

Ltac norm :=
  repeat match goal with
  | H : negb _ = true |- _ => apply Bool.negb_true_iff in H
  | H : negb _ = false |- _ => apply Bool.negb_false_iff in H
  | H : (_ && _) = true |- _ => apply Bool.andb_true_iff in H; destruct H
  | H : (_ <? _) = true |- _ => apply N.ltb_lt in H
  | H : (_ <? _) = false |- _ => apply N.ltb_ge in H
  | H : (_ <=? _) = true |- _ => apply N.leb_le in H
  | H : (_ <=? _) = false |- _ => apply N.leb_gt in H
  | H : (_ =? _) = true |- _ => apply N.eqb_eq in H
  | H : (_ =? _) = false |- _ => apply N.eqb_neq in H
  end.

(* ------------------------------------------------------- gate and MAC1 *)
Lemma gate_some ty len k : gate ty len = Some k -> ty = type_of k /\ len = size_of k.
Proof.
  unfold gate. repeat bm; intros H; inversion H; subst; norm; split; try assumption; reflexivity.
Qed.

Lemma kind_eqb_eq a b : kind_eqb a b = true <-> a = b.
Proof. destruct a, b; cbn; split; intros; try reflexivity; try discriminate. Qed.

Lemma recv_mac1_fail st now src oidx m :
  (forall k, gate (wire_type m) (m_len m) = Some k -> mac1_ok k m = false) ->
  recv st now src oidx m = (st, []).
Proof.
  intros H. unfold recv. destruct (gate (wire_type m) (m_len m)) as [k|] eqn:G; [|reflexivity].
  rewrite (H k eq_refl). reflexivity.
Qed.

Lemma mac1_needs_kind k m : mac1_ok k m = true -> k = m_kind m.
Proof. unfold mac1_ok. intros H. norm. now apply kind_eqb_eq. Qed.

(* truncated or extended *)
Theorem bad_length_inert st now src oidx m :
  m_len m <> size_of (m_kind m) -> recv st now src oidx m = (st, []).
Proof.
  intros H. apply recv_mac1_fail. intros k G. apply gate_some in G. destruct G as [_ G].
  destruct (mac1_ok k m) eqn:M; [|reflexivity]. apply mac1_needs_kind in M. subst k. contradiction.
Qed.

(* type word is not the one of the message that was built (unknown type,
   or the type of another message kind) *)
Theorem unknown_type_inert st now src oidx m :
  wire_type m <> type_of (m_kind m) -> recv st now src oidx m = (st, []).
Proof.
  intros H. apply recv_mac1_fail. intros k G. apply gate_some in G. destruct G as [G _].
  destruct (mac1_ok k m) eqn:M; [|reflexivity]. apply mac1_needs_kind in M. subst k. contradiction.
Qed.

Lemma gate_none_unknown ty len :
  ty <> MessageInitiationType -> ty <> MessageResponseType -> gate ty len = None.
Proof. intros H1 H2. unfold gate. repeat bm; norm; try reflexivity; contradiction. Qed.

Lemma mac1_ok_kind m : mac1_ok (m_kind m) m = (m_mac1key m =? 0) && (m_remac m || negb (covered_altered (m_kind m) m)).
Proof. unfold mac1_ok. destruct (m_kind m); reflexivity. Qed.

Theorem bad_mac1_inert st now src oidx m :
  mac1_ok (m_kind m) m = false -> recv st now src oidx m = (st, []).
Proof.
  intros H. apply recv_mac1_fail. intros k G.
  destruct (mac1_ok k m) eqn:M; [|reflexivity]. pose proof (mac1_needs_kind _ _ M). subst k. congruence.
Qed.

Lemma covered_below_smac2 k b : b < smac2 k -> covered (field_of_byte k b) = true.
Proof.
  intros H. unfold field_of_byte.
  destruct k; repeat (bm; try reflexivity); norm; exfalso; apply (N.lt_irrefl b); apply (N.lt_le_trans _ _ _ H); assumption.
Qed.

(* any single-bit (or other) alteration below smac2 — the bytes MAC1 covers or
   MAC1 itself — that is not followed by recomputing MAC1 makes CheckMAC1 fail *)
Theorem altered_bit_fails_mac1 m b :
  m_remac m = false -> In (Flip b) (m_muts m) -> b / 8 < smac2 (m_kind m) ->
  mac1_ok (m_kind m) m = false.
Proof.
  intros R I L. rewrite mac1_ok_kind, R. cbn [orb].
  assert (C : covered_altered (m_kind m) m = true).
  { unfold covered_altered. apply existsb_exists. exists (Flip b). split; [exact I|].
    cbn [mut_field]. apply covered_below_smac2. exact L. }
  rewrite C. cbn. apply Bool.andb_false_r.
Qed.

Theorem altered_field_fails_mac1 m f :
  m_remac m = false -> In (Subst f) (m_muts m) -> covered f = true -> mac1_ok (m_kind m) m = false.
Proof.
  intros R I L. rewrite mac1_ok_kind, R. cbn [orb].
  assert (C : covered_altered (m_kind m) m = true).
  { unfold covered_altered. apply existsb_exists. exists (Subst f). split; [exact I|exact L]. }
  rewrite C. cbn. apply Bool.andb_false_r.
Qed.

(* ------------------------------------------------------ initiation path *)
(* under load nothing but (at most) a cookie reply happens *)
Definition inert_ul (st : state) (r : state * list out) : Prop :=
  r = (st, []) \/ (loaded st = true /\ exists t c, r = (st, [OCookie t c])).

Lemma inert_ul_idle st r : loaded st = false -> inert_ul st r -> r = (st, []).
Proof. intros L [H|[H _]]; [exact H|congruence]. Qed.

Theorem under_load_only_cookie st now src oidx m :
  loaded st = true -> inert_ul st (recv st now src oidx m).
Proof.
  intros L. unfold recv. destruct (gate (wire_type m) (m_len m)) as [k|]; [|left; reflexivity].
  destruct (negb (mac1_ok k m)); [left; reflexivity|]. rewrite L. right. split; [exact L|]. eauto.
Qed.

Lemma recv_init st now src oidx m :
  m_kind m = KInit -> loaded st = false ->
  recv st now src oidx m = (st, []) \/ recv st now src oidx m = consume_initiation st now src oidx m.
Proof.
  intros K L. unfold recv. destruct (gate (wire_type m) (m_len m)) as [k|]; [|left; reflexivity].
  destruct (mac1_ok k m) eqn:M; [|left; reflexivity].
  apply mac1_needs_kind in M. subst k. rewrite L, K. right. reflexivity.
Qed.

Theorem initiation_replay_rejected st now src oidx m :
  m_kind m = KInit -> loaded st = false -> m_ts m <= last_ts (peers st (m_static m)) ->
  recv st now src oidx m = (st, []).
Proof.
  intros K L H. destruct (recv_init st now src oidx m K L) as [E|E]; rewrite E; [reflexivity|].
  unfold consume_initiation. repeat (bm; try reflexivity). norm. lia.
Qed.

Theorem initiation_flood_rejected st now src oidx m :
  m_kind m = KInit -> loaded st = false -> now - last_cons (peers st (m_static m)) <= HandshakeInitationRate ->
  recv st now src oidx m = (st, []).
Proof.
  intros K L H. destruct (recv_init st now src oidx m K L) as [E|E]; rewrite E; [reflexivity|].
  unfold consume_initiation. repeat (bm; try reflexivity). norm. unfold rate in *. lia.
Qed.

Theorem unknown_initiator_inert st now src oidx m :
  m_kind m = KInit -> loaded st = false -> p_conf (peers st (m_static m)) = false -> recv st now src oidx m = (st, []).
Proof.
  intros K L H. destruct (recv_init st now src oidx m K L) as [E|E]; rewrite E; [reflexivity|].
  unfold consume_initiation. repeat (bm; try reflexivity). norm. congruence.
Qed.

(* AEAD-protected fields: altering them is fatal even when MAC1 is recomputed *)
Theorem initiation_aead_inert st now src oidx m :
  m_kind m = KInit -> loaded st = false ->
  altered KInit FEphemeral m || altered KInit FEncStatic m || altered KInit FEncTimestamp m = true ->
  recv st now src oidx m = (st, []).
Proof.
  intros K L H. destruct (recv_init st now src oidx m K L) as [E|E]; rewrite E; [reflexivity|].
  unfold consume_initiation, static_opens, timestamp_opens.
  destruct (altered KInit FEphemeral m), (altered KInit FEncStatic m), (altered KInit FEncTimestamp m);
    try discriminate; rewrite ?Bool.andb_false_r; cbn; try reflexivity;
    repeat (bm; try reflexivity).
Qed.

(* What an accepted initiation looks like. *)
Lemma consume_initiation_inv st now src oidx m st' o :
  consume_initiation st now src oidx m = (st', o) -> o <> [] ->
  let p := m_static m in let P := peers st p in
  p_conf P = true /\ last_ts P < m_ts m /\ HandshakeInitationRate < now - last_cons P /\
  peers st' = peers (set_peer st p (with_responder_session P now src oidx m)) /\
  nseq st' = nseq st /\
  o = [OResp src p oidx (m_sender m) (m_psk m =? p_psk P)].
Proof.
  unfold consume_initiation. repeat bm; intros E NE; inversion E; subst; try congruence.
  norm. unfold rate in *. cbn. repeat split; assumption.
Qed.

(* ------------------------------------------------------- response path *)
Definition addressed (st : state) (m : msg) : bool :=
  match lookup (table st) (m_receiver m) with
  | Some e => t_hs e && (hs_state (peers st (t_peer e)) =? 1)
  | None => false
  end.

Lemma recv_resp st now src oidx m :
  m_kind m = KResp -> loaded st = false ->
  recv st now src oidx m = (st, []) \/ recv st now src oidx m = consume_response st src m.
Proof.
  intros K L. unfold recv. destruct (gate (wire_type m) (m_len m)) as [k|]; [|left; reflexivity].
  destruct (mac1_ok k m) eqn:M; [|left; reflexivity].
  apply mac1_needs_kind in M. subst k. rewrite L, K. right. reflexivity.
Qed.

(* not addressed to a handshake the device has in progress *)
Theorem unaddressed_response_inert st now src oidx m :
  m_kind m = KResp -> loaded st = false -> addressed st m = false -> recv st now src oidx m = (st, []).
Proof.
  intros K L H. destruct (recv_resp st now src oidx m K L) as [E|E]; rewrite E; [reflexivity|].
  unfold consume_response. unfold addressed in H.
  destruct (lookup (table st) (m_receiver m)) as [e|]; [|reflexivity].
  destruct (t_hs e); cbn in *; [|reflexivity]. rewrite H. reflexivity.
Qed.

Lemma consume_response_inv st src m st' o :
  consume_response st src m = (st', o) -> o <> [] ->
  exists e, lookup (table st) (m_receiver m) = Some e /\ t_hs e = true /\
  let p := t_peer e in let P := peers st p in
  hs_state P = 1 /\ m_ans m = hs_seq P /\ m_static m = p /\ m_psk m = p_psk P /\
  peers st' = peers (set_peer st p (with_initiator_session P src m)) /\ nseq st' = nseq st.
Proof.
  unfold consume_response. destruct (lookup (table st) (m_receiver m)) as [e|]; [|intros E; inversion E; congruence].
  repeat bm; intros E NE; inversion E; subst; try congruence.
  all: exists e; unfold transcript_ok in *; norm; cbn; repeat split; assumption.
Qed.

Theorem response_aead_inert st now src oidx m :
  m_kind m = KResp -> loaded st = false -> altered KResp FEphemeral m || altered KResp FEmpty m = true ->
  recv st now src oidx m = (st, []).
Proof.
  intros K L H. destruct (recv_resp st now src oidx m K L) as [E|E]; rewrite E; [reflexivity|].
  unfold consume_response. destruct (lookup (table st) (m_receiver m)) as [t|]; [|reflexivity].
  destruct (negb (t_hs t)); [reflexivity|].
  destruct (negb (hs_state (peers st (t_peer t)) =? 1)); [reflexivity|].
  assert (T : transcript_ok (peers st (t_peer t)) (t_peer t) m = false).
  { unfold transcript_ok.
    destruct (altered KResp FEphemeral m), (altered KResp FEmpty m); cbn in H; try discriminate;
      cbn [negb]; rewrite ?Bool.andb_false_r; reflexivity. }
  rewrite T. reflexivity.
Qed.

(* ------------------------------------------------- traces and histories *)
Definition is_resp (x : out) : bool := match x with OResp _ _ _ _ _ => true | _ => false end.

Definition is_trans (x : out) : bool := match x with OTrans _ _ _ _ => true | _ => false end.

(* timestamps of the initiations of peer p that were answered (a response left), in order *)
Fixpoint acc_ts (p : N) (evs : list event) (os : list (list out)) : list N :=
  match evs, os with
  | e :: evs', o :: os' =>
      match e_body e with
      | BMsg _ m =>
          match m_kind m with
          | KInit => if existsb is_resp o && (m_static m =? p) then m_ts m :: acc_ts p evs' os' else acc_ts p evs' os'
          | KResp => acc_ts p evs' os'
          end
      | _ => acc_ts p evs' os'
      end
  | _, _ => []
  end.

(* timestamps of the initiations the device emitted for peer p, in order *)
Fixpoint emitted_in (p : N) (o : list out) : list N :=
  match o with
  | [] => []
  | OInit _ q _ ts :: r => if q =? p then ts :: emitted_in p r else emitted_in p r
  | _ :: r => emitted_in p r
  end.
Definition emitted_ts (p : N) (os : list (list out)) : list N := flat_map (emitted_in p) os.

Lemma run_cons st e evs :
  run step st (e :: evs) =
  let '(s1, r) := step st e in let '(s2, rs) := run step s1 evs in (s2, r :: rs).
Proof. reflexivity. Qed.

Lemma outs_cons st e evs : outs step st (e :: evs) = snd (step st e) :: outs step (fst (step st e)) evs.
Proof.
  unfold outs. cbn [run]. destruct (step st e) as [s1 r]. cbn [fst snd].
  destruct (run step s1 evs). reflexivity.
Qed.

Lemma final_cons st e evs : final step st (e :: evs) = final step (fst (step st e)) evs.
Proof.
  unfold final. cbn [run]. destruct (step st e) as [s1 r]. cbn [fst snd].
  destruct (run step s1 evs). reflexivity.
Qed.

(* peers of the state after one event *)
Lemma peers_set_peer st p P q : peers (set_peer st p P) q = if q =? p then P else peers st q.
Proof. reflexivity. Qed.

Ltac explode :=
  unfold step, recv, consume_initiation, consume_response, tun_packet, send_initiation;
  repeat bm; cbn [fst snd peers set_table set_peer nseq]; repeat bm.
Ltac fields :=
  cbn [last_ts last_sent last_cons hs_seq hs_state with_responder_session with_initiator_session
       set_staged with_initiation shift_peer restart_peer remove_peer].

(* Events "inside the response-processing window" (BRespWindow) are composite: each lemma about one
   step is proved for them separately (suffix _w: all paths of resp_window are enumerated). *)
Definition is_window (e : event) : bool :=
  match e_body e with BRespWindow _ _ _ => true | _ => false end.

Ltac bmi :=
  match goal with
  | |- context [match ?x with _ => _ end] =>
      lazymatch x with
      | context [match _ with _ => _ end] => fail
      | _ => destruct x eqn:?
      end
  end.

Ltac wexplode :=
  unfold resp_window, resp_phase1, wact_step, begin_initiator, recv, consume_initiation, consume_response, send_initiation;
  cbv zeta;
  repeat (bmi; cbn [fst snd peers set_table set_peer nseq table]).
Ltac wfields :=
  cbn [last_ts last_sent last_cons hs_seq hs_state with_responder_session with_initiator_session
       set_staged with_initiation shift_peer restart_peer remove_peer with_response_consumed add_rx].

Ltac wclose :=
  try (norm; subst; wfields; lia);
  repeat match goal with H : (?x =? ?y) = ?b, H2 : context [?x =? ?y] |- _ => rewrite H in H2 end;
  cbn [peers set_peer set_table last_ts last_sent last_cons hs_seq hs_state with_responder_session with_initiator_session
       set_staged with_initiation shift_peer with_response_consumed add_rx] in *;
  norm; subst; wfields; lia.

Ltac wprep :=
  repeat match goal with H : (?x =? ?y) = ?b, H2 : context [?x =? ?y] |- _ => rewrite H in H2 end;
  cbn [peers set_peer set_table nseq last_ts last_sent last_cons hs_seq hs_state with_responder_session with_initiator_session
       set_staged with_initiation shift_peer with_response_consumed add_rx] in *;
  norm; subst; wfields.

Lemma last_ts_mono_w st now src oidx m w p :
  last_ts (peers st p) <= last_ts (peers (fst (resp_window st now src oidx m w)) p).
Proof. wexplode. all: wclose. Qed.

(* lastTimestamp never decreases *)
Lemma last_ts_mono st e p : last_ts (peers st p) <= last_ts (peers (fst (step st e)) p).
Proof.
  destruct (is_window e) eqn:W.
  - unfold is_window in W. unfold step. destruct (e_body e); try discriminate W. apply last_ts_mono_w.
  - revert W. unfold is_window. explode; intros NW; try discriminate NW; norm; subst; fields; lia.
Qed.

Lemma accepted_init_step st e src m :
  e_body e = BMsg src m -> m_kind m = KInit -> existsb is_resp (snd (step st e)) = true ->
  last_ts (peers st (m_static m)) < m_ts m /\
  last_ts (peers (fst (step st e)) (m_static m)) = m_ts m.
Proof.
  intros B K NE. unfold step in *. rewrite B in *.
  destruct (loaded st) eqn:L.
  - destruct (under_load_only_cookie st (e_now e) src (e_oidx e) m L) as [E|(_ & t & c & E)];
      rewrite E in NE; cbn in NE; discriminate.
  - destruct (recv_init st (e_now e) src (e_oidx e) m K L) as [E|E]; rewrite E in *; [cbn in NE; discriminate|].
    destruct (consume_initiation st (e_now e) src (e_oidx e) m) as [st' o] eqn:C. cbn [fst snd] in *.
    assert (NE' : o <> []) by (intros X; subst o; cbn in NE; discriminate).
    destruct (consume_initiation_inv _ _ _ _ _ _ _ C NE') as (_ & Lt & _ & PE & _).
    split; [exact Lt|]. rewrite PE. cbn [peers set_peer]. rewrite N.eqb_refl. reflexivity.
Qed.

Lemma acc_ts_bound p : forall evs st,
  Forall (fun t => last_ts (peers st p) < t) (acc_ts p evs (outs step st evs)) /\
  StronglySorted N.lt (acc_ts p evs (outs step st evs)).
Proof.
  induction evs as [|e evs IH]; intros st.
  - cbn. split; constructor.
  - rewrite outs_cons. cbn [acc_ts].
    destruct (IH (fst (step st e))) as [IHb IHs].
    pose proof (last_ts_mono st e p) as Mono.
    assert (Weak : Forall (fun t => last_ts (peers st p) < t)
                     (acc_ts p evs (outs step (fst (step st e)) evs))).
    { eapply Forall_impl; [|exact IHb]. cbn. intros. lia. }
    destruct (e_body e) as [src m|q inner|q d| |on|q|wsrc wm ww|q k] eqn:B; try (split; assumption).
    destruct (m_kind m) eqn:K; [|split; assumption].
    destruct (existsb is_resp (snd (step st e))) eqn:NE; cbn [andb]; [|split; assumption].
    destruct (m_static m =? p) eqn:Ep; [|split; assumption].
    norm.
    destruct (accepted_init_step st e src m B K NE) as [L1 L2]. rewrite Ep in *.
    split.
    + constructor; [exact L1|exact Weak].
    + constructor; [exact IHs|]. rewrite L2 in IHb. exact IHb.
Qed.

(* history form: the timestamps of the initiations of one peer that the device
   answered are strictly increasing *)
Theorem accepted_initiation_strictly_newer cfg now0 evs p :
  StronglySorted N.lt (acc_ts p evs (outs step (init cfg now0) evs)).
Proof. apply acc_ts_bound. Qed.

(* ------------------------------------ responses: at most once, latest only *)
Definition live (st : state) (p n : N) : Prop :=
  hs_state (peers st p) = 1 /\ hs_seq (peers st p) = n.

Definition seq_ok (st : state) : Prop := forall p, hs_seq (peers st p) <= nseq st.

(* initiation number n of peer p can no longer be completed *)
Definition dead (st : state) (p n : N) : Prop := n <= nseq st /\ ~ live st p n.

Lemma init_peers_seq cfg now0 q : hs_seq (init_peers cfg now0 q) = 0.
Proof.
  induction cfg as [|[[k psk] ep] r IH]; cbn; [reflexivity|].
  destruct (q =? k); [reflexivity|exact IH].
Qed.

Lemma seq_ok_init cfg now0 : seq_ok (init cfg now0).
Proof. intros p. cbn. rewrite init_peers_seq. lia. Qed.

Lemma step_nseq_w st now src oidx m w : nseq st <= nseq (fst (resp_window st now src oidx m w)).
Proof. wexplode. all: lia. Qed.

Lemma step_nseq st e : nseq st <= nseq (fst (step st e)).
Proof.
  destruct (is_window e) eqn:W.
  - unfold is_window in W. unfold step. destruct (e_body e); try discriminate W. apply step_nseq_w.
  - revert W. unfold is_window. explode; intros NW; try discriminate NW; lia.
Qed.


Lemma step_seq_w st now src oidx m w p :
    (hs_seq (peers (fst (resp_window st now src oidx m w)) p) = hs_seq (peers st p) /\
     (hs_state (peers (fst (resp_window st now src oidx m w)) p) = 1 -> hs_state (peers st p) = 1))
    \/ (hs_seq (peers (fst (resp_window st now src oidx m w)) p) = nseq st + 1 /\ nseq (fst (resp_window st now src oidx m w)) = nseq st + 1).
Proof.
  wexplode.
  all: wprep;
    first [ left; split; [reflexivity | solve [auto | intros X; discriminate X | congruence]]
          | right; split; reflexivity
          | exfalso; congruence | exfalso; lia
          | match goal with |- ?G => idtac G end ].
Qed.

Lemma step_seq st e p :
    (hs_seq (peers (fst (step st e)) p) = hs_seq (peers st p) /\
     (hs_state (peers (fst (step st e)) p) = 1 -> hs_state (peers st p) = 1))
    \/ (hs_seq (peers (fst (step st e)) p) = nseq st + 1 /\ nseq (fst (step st e)) = nseq st + 1).
Proof.
  destruct (is_window e) eqn:W.
  - unfold is_window in W. unfold step. destruct (e_body e); try discriminate W. apply step_seq_w.
  - revert W. unfold is_window. explode; intros NW; try discriminate NW; norm; subst; fields;
    first [ left; split; [reflexivity | solve [auto | intros X; discriminate X]]
          | right; split; reflexivity ].
Qed.

Lemma step_facts st e :
  nseq st <= nseq (fst (step st e)) /\
  forall p,
    (hs_seq (peers (fst (step st e)) p) = hs_seq (peers st p) /\
     (hs_state (peers (fst (step st e)) p) = 1 -> hs_state (peers st p) = 1))
    \/ (hs_seq (peers (fst (step st e)) p) = nseq st + 1 /\ nseq (fst (step st e)) = nseq st + 1).
Proof. split; [apply step_nseq|intros p; apply step_seq]. Qed.

Lemma seq_ok_step st e : seq_ok st -> seq_ok (fst (step st e)).
Proof.
  intros H p. destruct (step_facts st e) as [M F]. destruct (F p) as [[E _]|[E1 E2]].
  - rewrite E. specialize (H p). lia.
  - lia.
Qed.

Lemma seq_ok_final st evs : seq_ok st -> seq_ok (final step st evs).
Proof. intros H. apply (final_inv step seq_ok); [intros; now apply seq_ok_step|exact H]. Qed.

Lemma dead_step st e p n : dead st p n -> dead (fst (step st e)) p n.
Proof.
  intros [L NL]. destruct (step_facts st e) as [M F]. split; [lia|].
  intros [S Q]. destruct (F p) as [[E I]|[E1 E2]].
  - apply NL. split; [auto|congruence].
  - lia.
Qed.

Lemma dead_final st evs p n : dead st p n -> dead (final step st evs) p n.
Proof. intros H. apply (final_inv step (fun s => dead s p n)); [intros; now apply dead_step|exact H]. Qed.

Lemma flush_lens_ne P : flush_lens P <> [].
Proof. unfold flush_lens. destruct (staged P); cbn; discriminate. Qed.

Lemma consume_response_nil st src m st' : consume_response st src m = (st', []) -> st' = st.
Proof.
  unfold consume_response. repeat bm; intros E; inversion E; subst; try reflexivity;
    exfalso;
    match goal with H : map _ (flush_lens ?P) = [] |- _ =>
      apply (flush_lens_ne P); apply map_eq_nil in H; exact H end.
Qed.

(* a response for a dead initiation changes nothing *)
Lemma dead_inert st now src oidx m :
  m_kind m = KResp -> dead st (m_static m) (m_ans m) -> inert_ul st (recv st now src oidx m).
Proof.
  intros K [_ NL]. destruct (loaded st) eqn:L; [now apply under_load_only_cookie|].
  left. destruct (recv_resp st now src oidx m K L) as [E|E]; rewrite E; [reflexivity|].
  destruct (consume_response st src m) as [st' o] eqn:C.
  destruct o as [|x o]; [|exfalso].
  - apply consume_response_nil in C. subst. reflexivity.
  - assert (NE : x :: o <> []) by discriminate.
    destruct (consume_response_inv _ _ _ _ _ C NE) as (e & _ & _ & S & A & P & _).
    apply NL. rewrite P. split; [exact S|]. congruence.
Qed.

Lemma accepted_resp_step st e src m :
  e_body e = BMsg src m -> m_kind m = KResp -> existsb is_trans (snd (step st e)) = true ->
  live st (m_static m) (m_ans m) /\ hs_state (peers (fst (step st e)) (m_static m)) = 0 /\
  nseq (fst (step st e)) = nseq st.
Proof.
  intros B K NE. unfold step in *. rewrite B in *.
  destruct (loaded st) eqn:L.
  - destruct (under_load_only_cookie st (e_now e) src (e_oidx e) m L) as [E|(_ & t & c & E)];
      rewrite E in NE; cbn in NE; discriminate.
  - destruct (recv_resp st (e_now e) src (e_oidx e) m K L) as [E|E]; rewrite E in *; [cbn in NE; discriminate|].
    destruct (consume_response st src m) as [st' o] eqn:C. cbn [fst snd] in *.
    assert (NE' : o <> []) by (intros X; subst o; cbn in NE; discriminate).
    destruct (consume_response_inv _ _ _ _ _ C NE') as (t & _ & _ & S & A & P & _ & PE & NS).
    rewrite P. repeat split; try assumption; try congruence.
    rewrite PE. cbn [peers set_peer]. rewrite N.eqb_refl. reflexivity.
Qed.

(* a response establishes at most one session: once a response answering the
   device's initiation number n has been accepted, every later response
   answering that initiation (a second copy or a different one) changes nothing,
   whatever happens in between *)
Theorem response_once st e src m evs now' src' oidx' m' :
  seq_ok st ->
  e_body e = BMsg src m -> m_kind m = KResp -> existsb is_trans (snd (step st e)) = true ->
  m_kind m' = KResp -> m_static m' = m_static m -> m_ans m' = m_ans m ->
  let st' := final step (fst (step st e)) evs in
  inert_ul st' (recv st' now' src' oidx' m').
Proof.
  intros SO B K NE K' S' A' st'.
  destruct (accepted_resp_step st e src m B K NE) as ([L1 L2] & Z & NS).
  apply dead_inert; [exact K'|]. rewrite S', A'. apply dead_final.
  split.
  - rewrite NS, <- L2. apply SO.
  - intros [X _]. rewrite Z in X. discriminate.
Qed.

Lemma map_otrans_not_init a b c L x : map (fun l => OTrans a b c l) L = [x] -> is_resp x = false /\ (forall t p s ts, x <> OInit t p s ts).
Proof. destruct L as [|l L]; cbn; intros H; inversion H; subst. split; [reflexivity|discriminate]. Qed.

Lemma step_emits_init_w st now src oidx m w to p s ts :
  snd (resp_window st now src oidx m w) = [OInit to p s ts] ->
  hs_seq (peers (fst (resp_window st now src oidx m w)) p) = nseq st + 1 /\ nseq (fst (resp_window st now src oidx m w)) = nseq st + 1.
Proof.
  wexplode.
  all: intros O; cbn [app] in O; try discriminate O;
       try (exfalso; apply map_otrans_not_init in O; destruct O as [_ O]; eapply O; reflexivity);
       try (exfalso; match type of O with map _ (flush_lens ?P) ++ _ = _ => destruct (flush_lens P) eqn:FL; [exact (flush_lens_ne P FL)|cbn in O; discriminate O] end);
       try (exfalso; inversion O; match goal with H : map _ (flush_lens ?P) = [] |- _ => apply map_eq_nil in H; exact (flush_lens_ne P H) end).
  all: inversion O; subst; wprep; rewrite ?N.eqb_refl; cbn;
       first [ split; reflexivity | exfalso; congruence | exfalso; lia | match goal with |- ?G => idtac G end ].
Qed.

Lemma step_emits_init st e to p s ts :
  snd (step st e) = [OInit to p s ts] ->
  hs_seq (peers (fst (step st e)) p) = nseq st + 1 /\ nseq (fst (step st e)) = nseq st + 1.
Proof.
  destruct (is_window e) eqn:W;
    [unfold is_window in W; unfold step; destruct (e_body e); try discriminate W; apply step_emits_init_w|].
  revert W.
  unfold is_window, step, recv, consume_initiation, consume_response, tun_packet, send_initiation;
  repeat bm; cbn [fst snd]; intros NW O; try discriminate NW; try discriminate O;
    try (exfalso; apply map_otrans_not_init in O; destruct O as [_ O]; eapply O; reflexivity).
  all: inversion O; subst; cbn [peers set_peer nseq]; rewrite N.eqb_refl; cbn; split; reflexivity.
Qed.

(* ... and only for the most recent initiation: after the device has created
   initiation number nseq+1 for peer p, responses answering any earlier
   initiation of p change nothing, forever *)
Theorem response_only_for_latest_initiation st e to p s ts evs now' src' oidx' m' :
  seq_ok st ->
  snd (step st e) = [OInit to p s ts] ->
  m_kind m' = KResp -> m_static m' = p -> m_ans m' <= nseq st ->
  let st' := final step (fst (step st e)) evs in
  inert_ul st' (recv st' now' src' oidx' m').
Proof.
  intros SO O K' S' A' st'.
  apply dead_inert; [exact K'|]. rewrite S'. apply dead_final.
  pose proof (step_emits_init _ _ _ _ _ _ O) as F.
  destruct F as [F1 F2]. split; [lia|]. intros [_ Q]. lia.
Qed.

(* ------------------------------------------- emitted timestamps increase *)
Definition is_reset (e : event) : bool :=
  match e_body e with BShift _ _ | BRestart | BRespWindow _ _ (WShiftInitiate _ _) => true | _ => false end.
(* (BLoad does not touch lastSentHandshake: it is not a reset; a window event is one when it
   contains the time-shift hook) *)

Fixpoint mono_from (t : N) (evs : list event) : Prop :=
  match evs with
  | [] => True
  | e :: r => t <= e_now e /\ in_range (e_now e) /\ mono_from (e_now e) r
  end.

Lemma rekey_ge_whitener : whitener <= RekeyTimeout.
Proof. vm_compute. discriminate. Qed.

Lemma stamp_val_mono t1 t2 : t1 <= t2 -> in_range t2 -> stamp_val t1 <= stamp_val t2.
Proof. apply val_stamp_mono. Qed.

Lemma stamp_val_strict t1 t2 : t1 + RekeyTimeout <= t2 -> in_range t2 -> stamp_val t1 < stamp_val t2.
Proof. intros H R. apply val_stamp_strict; [|exact R]. pose proof rekey_ge_whitener. lia. Qed.

Lemma emitted_in_otrans p a b c L : emitted_in p (map (fun l => OTrans a b c l) L) = [].
Proof. induction L; cbn; auto. Qed.

Lemma emitted_in_app p a b : emitted_in p (a ++ b) = emitted_in p a ++ emitted_in p b.
Proof. induction a as [|x a IH]; cbn; [reflexivity|]. destruct x; cbn; try exact IH. destruct (p0 =? p); cbn; rewrite IH; reflexivity. Qed.

Definition shiftless (w : wact) : bool := match w with WShiftInitiate _ _ => false | _ => true end.

Lemma emit_step_w st now src oidx m w p :
  shiftless w = true -> last_sent (peers st p) <= now ->
  let r := resp_window st now src oidx m w in
  (emitted_in p (snd r) = [] /\
   last_sent (peers st p) <= last_sent (peers (fst r) p) /\ last_sent (peers (fst r) p) <= now)
  \/ (emitted_in p (snd r) = [stamp_val now] /\
      last_sent (peers st p) + RekeyTimeout <= now /\ last_sent (peers (fst r) p) = now).
Proof.
  intros SL LE r. subst r. revert SL LE. unfold shiftless.
  wexplode.
  all: intros SL LE; try discriminate SL; rewrite ?emitted_in_app, ?emitted_in_otrans; cbn [emitted_in app]; repeat bm.
  all: wprep; cbn [last_sent set_staged] in *;
    first [ left; repeat split; (reflexivity || lia) | right; repeat split; (reflexivity || lia)
          | exfalso; congruence | exfalso; lia | match goal with |- ?G => idtac G end ].
Qed.

(* effect of one non-reset event at time now >= last_sent on last_sent and on the emitted list *)
Lemma emit_step st e p :
  is_reset e = false -> last_sent (peers st p) <= e_now e ->
  let st1 := fst (step st e) in
  (emitted_in p (snd (step st e)) = [] /\
   last_sent (peers st p) <= last_sent (peers st1 p) /\ last_sent (peers st1 p) <= e_now e)
  \/ (emitted_in p (snd (step st e)) = [stamp_val (e_now e)] /\
      last_sent (peers st p) + RekeyTimeout <= e_now e /\ last_sent (peers st1 p) = e_now e).
Proof.
  intros NR LE. destruct (is_window e) eqn:W.
  { unfold is_window in W. unfold is_reset in NR. unfold step.
    destruct (e_body e) as [| | | | | |wsrc wm ww|]; try discriminate W.
    apply emit_step_w; [destruct ww; (reflexivity || discriminate NR)|exact LE]. }
  unfold is_reset in NR. revert NR. revert W. unfold is_window.
  unfold step, recv, consume_initiation, consume_response, tun_packet, send_initiation.
  repeat bm; intros W NR; try discriminate NR; try discriminate W;
    cbn [fst snd peers set_table set_peer]; rewrite ?emitted_in_otrans; cbn [emitted_in]; repeat bm;
    norm; subst; try congruence; fields; cbn [last_sent set_staged] in *;
    first [ left; repeat split; (reflexivity || lia) | right; repeat split; (reflexivity || lia) ].
Qed.

Lemma emitted_bound p : forall evs st T,
  forallb (fun e => negb (is_reset e)) evs = true -> mono_from T evs ->
  last_sent (peers st p) <= T ->
  Forall (fun ts => stamp_val (last_sent (peers st p)) < ts) (emitted_ts p (outs step st evs)) /\
  StronglySorted N.lt (emitted_ts p (outs step st evs)).
Proof.
  induction evs as [|e evs IH]; intros st T NR M LS.
  - cbn. split; constructor.
  - cbn [forallb] in NR. apply Bool.andb_true_iff in NR. destruct NR as [NR1 NR].
    apply Bool.negb_true_iff in NR1. destruct M as (M1 & R & M).
    rewrite outs_cons. unfold emitted_ts. cbn [flat_map]. fold (emitted_ts p (outs step (fst (step st e)) evs)).
    assert (LE : last_sent (peers st p) <= e_now e) by lia.
    destruct (emit_step st e p NR1 LE) as [(E & L1 & L2)|(E & L1 & L2)]; rewrite E; cbn [app].
    + destruct (IH (fst (step st e)) (e_now e) NR M L2) as [IHb IHs]. split; [|exact IHs].
      eapply Forall_impl; [|exact IHb]. cbn. intros a Ha.
      assert (stamp_val (last_sent (peers st p)) <= stamp_val (last_sent (peers (fst (step st e)) p))).
      { apply stamp_val_mono; [exact L1|]. eapply in_range_le; eassumption. }
      lia.
    + assert (L2' : last_sent (peers (fst (step st e)) p) <= e_now e) by lia.
      destruct (IH (fst (step st e)) (e_now e) NR M L2') as [IHb IHs]. rewrite L2 in IHb.
      assert (S : stamp_val (last_sent (peers st p)) < stamp_val (e_now e)) by (apply stamp_val_strict; assumption).
      split.
      * constructor; [exact S|]. eapply Forall_impl; [|exact IHb]. cbn. intros. lia.
      * constructor; [exact IHs|exact IHb].
Qed.

Lemma init_last_sent cfg now0 p : last_sent (peers (init cfg now0) p) <= now0.
Proof.
  cbn. induction cfg as [|[[k psk] ep] r IH]; cbn; [lia|].
  destruct (p =? k); [cbn; lia|exact IH].
Qed.

(* Initiations emitted by the device for one peer carry strictly increasing
   timestamps — for every history in which the clock does not run backwards
   and lastSentHandshake is not reset (no Down/Up, no time-shift hook). *)
Theorem emitted_timestamps_increasing cfg now0 evs p :
  forallb (fun e => negb (is_reset e)) evs = true -> mono_from now0 evs ->
  StronglySorted N.lt (emitted_ts p (outs step (init cfg now0) evs)).
Proof.
  intros NR M. eapply emitted_bound; [exact NR|exact M|apply init_last_sent].
Qed.

(* Finding F7: with a restart in between (Peer.Start resets lastSentHandshake)
   the statement is false — two initiations 2 ms apart carry EQUAL timestamps. *)
Definition f7_events : list event :=
  [ {| e_now := 1700000000101000000; e_oidx := 11; e_body := BTun 1 80 |};
    {| e_now := 1700000000102000000; e_oidx := 0;  e_body := BRestart |};
    {| e_now := 1700000000103000000; e_oidx := 12; e_body := BTun 1 80 |} ].

Lemma emitted_timestamps_increasing_with_restart_refuted :
  exists (cfg : list (N * N * N)) (now0 : N) (evs : list event) (p : N),
    mono_from now0 evs /\
    forallb (fun e => match e_body e with BShift _ _ => false | _ => true end) evs = true /\
    ~ StronglySorted N.lt (emitted_ts p (outs step (init cfg now0) evs)).
Proof.
  exists [(1, 0, 1)], 1700000000000000000, f7_events, 1.
  split; [|split].
  - cbn. unfold in_range. repeat split; vm_compute; congruence.
  - reflexivity.
  - assert (E : emitted_ts 1 (outs step (init [(1, 0, 1)] 1700000000000000000) f7_events)
                = [stamp_val 1700000000101000000; stamp_val 1700000000101000000]) by (vm_compute; reflexivity).
    rewrite E. intros H. inversion H as [|a l S F]; subst. inversion F as [|b l' Hlt _]; subst.
    exact (N.lt_irrefl _ Hlt).
Qed.

(* ------------------------------------ event inside the response window *)
(* What the worker does after the window when the handshake is no longer in state
   responseConsumed: BeginSymmetricSession fails — only rxBytes moves.  Everything else
   (outputs, index table, initiation counter, key slots, handshake, lastHandshake counter of
   the peer; every other peer) is what the in-window event alone produced. *)
Theorem window_supersede_no_session st now src oidx m w p :
  resp_phase1 st m = Some p ->
  let st1 := set_peer st p (with_response_consumed (peers st p) src m) in
  let r2 := wact_step st1 now oidx w in
  hs_state (peers (fst r2) p) <> 4 ->
  let r := resp_window st now src oidx m w in
  snd r = snd r2 /\ table (fst r) = table (fst r2) /\ nseq (fst r) = nseq (fst r2) /\
  kcur (peers (fst r) p) = kcur (peers (fst r2) p) /\
  kprev (peers (fst r) p) = kprev (peers (fst r2) p) /\
  knext (peers (fst r) p) = knext (peers (fst r2) p) /\
  lh (peers (fst r) p) = lh (peers (fst r2) p) /\
  hs_state (peers (fst r) p) = hs_state (peers (fst r2) p) /\
  hs_local (peers (fst r) p) = hs_local (peers (fst r2) p) /\
  rx (peers (fst r) p) = rx (peers (fst r2) p) + m_len m /\
  forall q, q <> p -> peers (fst r) q = peers (fst r2) q.
Proof.
  intros H st1 r2 NE r. unfold r, resp_window. rewrite H. fold st1. fold r2.
  destruct (hs_state (peers (fst r2) p) =? 4) eqn:E; [apply N.eqb_eq in E; contradiction|].
  cbn [fst snd table nseq set_peer peers]. rewrite N.eqb_refl. cbn.
  repeat split. intros q Hq. apply N.eqb_neq in Hq. rewrite Hq. reflexivity.
Qed.

Lemma in_otrans_not x a b c L : In x (map (fun l => OTrans a b c l) L) -> is_trans x = true.
Proof. intros I. apply in_map_iff in I. destruct I as (l & E & _). subst. reflexivity. Qed.

(* a new initiation for p left inside the window: p's handshake is initiationCreated again *)
Lemma wact_new_initiation st now oidx w to p s ts :
  In (OInit to p s ts) (snd (wact_step st now oidx w)) ->
  hs_state (peers (fst (wact_step st now oidx w)) p) = 1.
Proof.
  unfold wact_step, send_initiation, recv, consume_initiation, consume_response.
  repeat bm; cbn [fst snd]; intros I;
    try (apply in_otrans_not in I; discriminate I);
    try (destruct I as [I|[]]; inversion I; subst; cbn [peers set_peer set_table]; rewrite N.eqb_refl; reflexivity);
    try (destruct I as [I|[]]; discriminate I);
    try contradiction.
Qed.

(* an initiation of p was answered inside the window: p's handshake is zeroed (the responder
   session sits in next) *)
Lemma wact_answered_initiation st now oidx w to p s r o :
  In (OResp to p s r o) (snd (wact_step st now oidx w)) ->
  hs_state (peers (fst (wact_step st now oidx w)) p) = 0.
Proof.
  unfold wact_step, send_initiation, recv, consume_initiation, consume_response.
  repeat bm; cbn [fst snd]; intros I;
    try (apply in_otrans_not in I; discriminate I);
    try (destruct I as [I|[]]; inversion I; subst; cbn [peers set_peer set_table]; rewrite N.eqb_refl; reflexivity);
    try (destruct I as [I|[]]; discriminate I);
    try contradiction.
Qed.

(* the other direction: an in-window event that leaves the handshake of p in state
   responseConsumed is followed by the normal initiator completion *)
Theorem window_untouched_completes st now src oidx m w p :
  resp_phase1 st m = Some p ->
  let st1 := set_peer st p (with_response_consumed (peers st p) src m) in
  let r2 := wact_step st1 now oidx w in
  hs_state (peers (fst r2) p) = 4 ->
  resp_window st now src oidx m w =
    (fst (begin_initiator (fst r2) p src m), snd r2 ++ snd (begin_initiator (fst r2) p src m)).
Proof.
  intros H st1 r2 E. unfold resp_window. rewrite H. fold st1. fold r2. rewrite E. reflexivity.
Qed.

(* a response that is not consumable makes the window event the sequential one *)
Theorem window_unconsumable_sequential st now src oidx m w :
  resp_phase1 st m = None ->
  resp_window st now src oidx m w =
    (fst (wact_step (fst (recv st now src oidx m)) now oidx w),
     snd (recv st now src oidx m) ++ snd (wact_step (fst (recv st now src oidx m)) now oidx w)).
Proof. intros H. unfold resp_window. rewrite H. reflexivity. Qed.

(* ... and then the response itself was inert (when the device is not under load) *)
Theorem window_unconsumable_response_inert st now src oidx m :
  m_kind m = KResp -> loaded st = false -> resp_phase1 st m = None -> recv st now src oidx m = (st, []).
Proof.
  intros K L. unfold resp_phase1, recv.
  destruct (gate (wire_type m) (m_len m)) as [k|] eqn:G; [|reflexivity].
  destruct (mac1_ok k m) eqn:M; [|reflexivity].
  pose proof (mac1_needs_kind _ _ M) as E. rewrite K in E. subst k. rewrite M, L. cbn [negb].
  unfold consume_response.
  destruct (lookup (table st) (m_receiver m)) as [e|]; [|reflexivity].
  repeat bm; intros X; try reflexivity; discriminate X.
Qed.
