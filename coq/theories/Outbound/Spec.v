(* C01 as an executable specification over what the remote parties observe.

   [holds_trace] walks the harness events and the descriptors of the datagrams
   the device emitted after each of them and checks the property text directly
   (it does not use the mirror functions route / pad_len / step of Model.v):

   - every datagram is a well-formed initiation, response, cookie reply or
     transport message, addressed to the current endpoint of a configured peer;
   - a transport datagram for peer P carries the receiver index P announced in
     its latest completed handshake and authenticates under that session's key;
   - its plaintext is empty, or one IP packet read from the TUN (v4/v6, full
     header) whose destination has P as longest-prefix match, followed by
     fewer than 16 zero bytes; if the packet is no larger than the MTU the
     padded length is the length rounded up to 16 and capped at the MTU;
   - every TUN packet is used at most once (multiset accounting). *)
From WG Require Import Base.Prelude Gen.Constants DataPath.Lpm Outbound.Model.
Local Open Scope N_scope.

Record obs := {
  o_kind : N;        (* 1 initiation, 2 response, 3 cookie reply, 4 transport, 0 malformed *)
  o_peer : N;        (* 1 + index of the peer the datagram is attributable to (0 = nobody):
                        initiation: whose static key opens it; response: MAC1 key; transport: session owner *)
  o_sess : N;        (* transport: serial number of the session whose key opens it (0 = none) *)
  o_ep : N;          (* destination endpoint id *)
  o_rcv : N;         (* receiver index field *)
  o_ctr : N;
  o_len : N;         (* datagram length *)
  o_plain : list N   (* decrypted plaintext *)
}.

Record speer := { sp_ep : option N; sp_idx : option N; sp_key : N }.
Record sstate := {
  sp_mtu : Z; sp_peers : list speer; sp_nsess : N;
  sp_avail : list (N * pkt)      (* (owner, packet) read from the TUN, routable, not yet seen on the wire *)
}.

Fixpoint list_eqb (a b : list N) : bool :=
  match a, b with
  | [], [] => true
  | x :: a', y :: b' => (x =? y) && list_eqb a' b'
  | _, _ => false
  end.

Definition byte (p : pkt) (i : nat) : N := nth i p 0.
Definition addr4 (p : pkt) (o : nat) : N :=
  ((byte p o * 256 + byte p (o + 1)) * 256 + byte p (o + 2)) * 256 + byte p (o + 3).
Fixpoint addrn (p : pkt) (o n : nat) (acc : N) : N :=
  match n with O => acc | S k => addrn p (S o) k (acc * 256 + byte p o) end.

(* "an IP packet (v4/v6 with a full header) whose destination has P as its longest-prefix match" *)
Definition routed_to (tbl : list entry) (P : N) (p : pkt) : bool :=
  let n := N.of_nat (length p) in
  if (byte p 0 / 16 =? 4) && (20 <=? n) then lpm_okb tbl V4 (addr4 p 16) P
  else if (byte p 0 / 16 =? 6) && (40 <=? n) then lpm_okb tbl V6 (addrn p 24 16 0) P
  else false.

Definition roundup16 (n : N) : N := 16 * ((n + 15) / 16).

(* plaintext = packet ++ fewer than 16 zero bytes (+ the MTU rule).
   Written with explicit conditionals: the VM evaluates both arguments of &&. *)
Fixpoint prefix_then_zeros (p plain : pkt) : bool :=
  match p, plain with
  | x :: p', y :: plain' => if x =? y then prefix_then_zeros p' plain' else false
  | [], rest => forallb (fun b => b =? 0) rest
  | _ :: _, [] => false
  end.

Definition padded_from (mtu : Z) (plain p : pkt) : bool :=
  if prefix_then_zeros p plain then
    let lp := N.of_nat (length p) in
    let ll := N.of_nat (length plain) in
    if ll - lp <? 16 then
      (if (0 <? lp) && (Z.of_N lp <=? mtu)%Z then (Z.of_N ll =? Z.min (Z.of_N (roundup16 lp)) mtu)%Z else true)
    else false
  else false.

Fixpoint take_avail (mtu : Z) (P : N) (plain : pkt) (l : list (N * pkt)) : option (list (N * pkt)) :=
  match l with
  | [] => None
  | (q, p) :: t =>
      if (q =? P) && padded_from mtu plain p then Some t
      else match take_avail mtu P plain t with Some t' => Some ((q, p) :: t') | None => None end
  end.

Definition owners (tbl : list entry) (np : N) (p : pkt) : list (N * pkt) :=
  map (fun P => (P, p)) (filter (fun P => routed_to tbl P p) (map N.of_nat (seq 0 (N.to_nat np)))).

Definition upd_peer (l : list speer) (i : N) (f : speer -> speer) : list speer :=
  match nth_error l (N.to_nat i) with
  | Some x => set_nth l (N.to_nat i) (f x)
  | None => l
  end.

(* What the harness did, seen from the property: endpoints move with
   authenticated traffic, a completed handshake announces an index and starts
   session number (count of handshakes so far), TUN reads feed the multiset. *)
Definition spec_event (tbl : list entry) (s : sstate) (ev : event) : sstate :=
  match ev with
  | TunBatch pkts | TunBatchFault pkts _ _ =>
      {| sp_mtu := sp_mtu s; sp_peers := sp_peers s; sp_nsess := sp_nsess s;
         sp_avail := sp_avail s ++ flat_map (owners tbl (N.of_nat (length (sp_peers s)))) pkts |}
  | MtuUpdate m =>
      {| sp_mtu := if (m <? 0)%Z then sp_mtu s else Z.min m (Z.of_N MaxContentSize);
         sp_peers := sp_peers s; sp_nsess := sp_nsess s; sp_avail := sp_avail s |}
  | RefHs p ridx ep | AnswerHs p ridx ep =>
      {| sp_mtu := sp_mtu s; sp_nsess := sp_nsess s + 1; sp_avail := sp_avail s;
         sp_peers := upd_peer (sp_peers s) p
                       (fun _ => {| sp_ep := Some ep; sp_idx := Some ridx; sp_key := sp_nsess s + 1 |}) |}
  | Roam p ep | SetEp p ep =>
      {| sp_mtu := sp_mtu s; sp_nsess := sp_nsess s; sp_avail := sp_avail s;
         sp_peers := upd_peer (sp_peers s) p
                       (fun x => {| sp_ep := Some ep; sp_idx := sp_idx x; sp_key := sp_key x |}) |}
  | ShiftHs _ | Expire _ | ReplayInit _ _ => s
  | Down | Up => s      (* the property text ties nothing to the interface state *)
  end.

Definition opt_is (o : option N) (v : N) : bool := match o with Some x => x =? v | None => false end.

(* one observed datagram; returns the remaining multiset, None = property violated *)
Definition spec_obs (s : sstate) (o : obs) : option (list (N * pkt)) :=
  if o_peer o =? 0 then None else
  match nth_error (sp_peers s) (N.to_nat (o_peer o - 1)) with
  | None => None
  | Some sp =>
      if negb (opt_is (sp_ep sp) (o_ep o)) then None
      else if (o_kind o =? MessageInitiationType) then
        (if o_len o =? MessageInitiationSize then Some (sp_avail s) else None)
      else if (o_kind o =? MessageResponseType) then
        (if o_len o =? MessageResponseSize then Some (sp_avail s) else None)
      else if (o_kind o =? MessageTransportType) then
        if negb (opt_is (sp_idx sp) (o_rcv o)) then None
        else if negb ((o_sess o =? sp_key sp) && negb (o_sess o =? 0)) then None
        else if negb (o_len o =? MessageTransportSize + N.of_nat (length (o_plain o))) then None
        else match o_plain o with
             | [] => Some (sp_avail s)
             | _ => take_avail (sp_mtu s) (o_peer o - 1) (o_plain o) (sp_avail s)
             end
      else None   (* cookie replies are not expected from this harness; malformed never allowed *)
  end.

Fixpoint spec_obs_list (s : sstate) (l : list obs) : option sstate :=
  match l with
  | [] => Some s
  | o :: t =>
      match spec_obs s o with
      | None => None
      | Some av => spec_obs_list {| sp_mtu := sp_mtu s; sp_peers := sp_peers s; sp_nsess := sp_nsess s; sp_avail := av |} t
      end
  end.

(* first step at which the property fails *)
Fixpoint holds_trace (tbl : list entry) (s : sstate) (evs : list event) (obs : list (list obs)) (i : N) : option N :=
  match evs, obs with
  | [], _ => None
  | ev :: evs', o :: obs' =>
      match spec_obs_list (spec_event tbl s ev) o with
      | None => Some i
      | Some s' => holds_trace tbl s' evs' obs' (i + 1)
      end
  | _ :: _, [] => Some i
  end.

(* padding rule of the property for the whole-domain sweep of calculatePaddingSize *)
Definition pad_ok (len mtu pad : Z) : bool :=
  ((0 <=? pad) && (pad <? 16) &&
   (if (0 <? len) && (len <=? mtu) then len + pad =? Z.min (16 * ((len + 15) / 16)) mtu else true) &&
   (if mtu =? 0 then (len + pad) mod 16 =? 0 else true))%Z.
