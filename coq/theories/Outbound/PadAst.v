(* Deep-embedded mini-language for the body of calculatePaddingSize (device/send.go) and an executable interpreter
   with Go `int` (64-bit two's complement) semantics.  The term is produced from the Go SOURCE by harness/cmd/padast
   (Gen/PadAst.v); Outbound/PadAstProofs.v proves interpreter = Outbound.Model.pad_len for all inputs in range.
   No proofs here.

   Semantics: every value is a Z meant to lie in [-2^63, 2^63).  +, -, *, unary - wrap (two's complement);
   % is Z.rem (truncated, sign of the dividend, as Go) and yields None for a zero divisor (Go panics);
   &, |, &^, unary ^ are Z.land, Z.lor, Z.ldiff, Z.lnot on the infinite two's complement representation
   (they cannot leave the range for in-range operands).  Constants are the exact values the translator folded.
   EUnknown/BUnknown/SUnknown (what the translator emits for anything it does not recognise) and a read of an
   undeclared variable yield None.  `:=` and `=` are both SAssign on an association list (the translator
   refuses redeclaration of a name, so there is no shadowing to model).  There are no loops, so no fuel. *)
From Coq Require Import String.
From WG Require Import Base.Prelude.
Local Open Scope Z_scope.

Definition two63 : Z := 9223372036854775808.
Definition two64 : Z := 18446744073709551616.
Definition wrap (z : Z) : Z := (z + two63) mod two64 - two63.

Inductive binop := OAdd | OSub | OMul | ORem | OAnd | OOr | OAndNot.
Inductive unop := UNot | UNeg.
Inductive cmpop := CGe | CGt | CLe | CLt | CEq | CNe.

Inductive expr :=
| EConst (n : Z)
| EVar (x : string)              (* local variable or parameter *)
| EUn (o : unop) (a : expr)
| EBin (o : binop) (a b : expr)
| EUnknown (what : string).

Inductive bexpr :=
| BCmp (o : cmpop) (a b : expr)
| BUnknown (what : string).

Inductive stmt :=
| SSkip
| SSeq (a b : stmt)
| SAssign (x : string) (e : expr)                (* x := e, x = e *)
| SOpAssign (x : string) (o : binop) (e : expr)  (* x op= e; x++ is SOpAssign x OAdd 1 *)
| SIf (c : bexpr) (t e : stmt)
| SReturn (e : expr)
| SUnknown (what : string).

Definition env := list (string * Z).

Inductive outcome :=
| Normal (st : env)
| Returned (r : Z).

Fixpoint lookup (x : string) (e : env) : option Z :=
  match e with
  | [] => None
  | (y, v) :: t => if String.eqb x y then Some v else lookup x t
  end.

(* replace in place, or declare in front *)
Fixpoint is_set (x : string) (e : env) : bool :=
  match e with
  | [] => false
  | (y, _) :: t => if String.eqb x y then true else is_set x t
  end.
Fixpoint replace (x : string) (v : Z) (e : env) : env :=
  match e with
  | [] => []
  | (y, w) :: t => if String.eqb x y then (y, v) :: t else (y, w) :: replace x v t
  end.
Definition update (x : string) (v : Z) (e : env) : env :=
  if is_set x e then replace x v e else (x, v) :: e.

Definition binop_sem (o : binop) (x y : Z) : option Z :=
  match o with
  | OAdd => Some (wrap (x + y))
  | OSub => Some (wrap (x - y))
  | OMul => Some (wrap (x * y))
  | ORem => if y =? 0 then None else Some (wrap (Z.rem x y))
  | OAnd => Some (Z.land x y)
  | OOr => Some (Z.lor x y)
  | OAndNot => Some (Z.ldiff x y)
  end.

Definition unop_sem (o : unop) (x : Z) : Z :=
  match o with
  | UNot => Z.lnot x
  | UNeg => wrap (- x)
  end.

Definition cmpop_sem (o : cmpop) (x y : Z) : bool :=
  match o with
  | CGe => y <=? x
  | CGt => y <? x
  | CLe => x <=? y
  | CLt => x <? y
  | CEq => x =? y
  | CNe => negb (x =? y)
  end.

Fixpoint eval (e : expr) (st : env) : option Z :=
  match e with
  | EConst n => Some n
  | EVar x => lookup x st
  | EUn o a => match eval a st with Some x => Some (unop_sem o x) | None => None end
  | EBin o a b =>
      match eval a st with
      | Some x => match eval b st with Some y => binop_sem o x y | None => None end
      | None => None
      end
  | EUnknown _ => None
  end.

Definition evalb (b : bexpr) (st : env) : option bool :=
  match b with
  | BCmp o a b =>
      match eval a st with
      | Some x => match eval b st with Some y => Some (cmpop_sem o x y) | None => None end
      | None => None
      end
  | BUnknown _ => None
  end.

(* continue with k after a statement that completed normally; a return (or failure) propagates *)
Definition andthen (r : option outcome) (k : env -> option outcome) : option outcome :=
  match r with
  | Some (Normal st) => k st
  | other => other
  end.

Fixpoint exec (s : stmt) (st : env) : option outcome :=
  match s with
  | SSkip => Some (Normal st)
  | SSeq a b => andthen (exec a st) (exec b)
  | SAssign x e => match eval e st with Some v => Some (Normal (update x v st)) | None => None end
  | SOpAssign x o e =>
      match lookup x st with
      | Some a =>
          match eval e st with
          | Some b => match binop_sem o a b with Some v => Some (Normal (update x v st)) | None => None end
          | None => None
          end
      | None => None
      end
  | SIf c t e =>
      match evalb c st with
      | Some true => exec t st
      | Some false => exec e st
      | None => None
      end
  | SReturn e => match eval e st with Some v => Some (Returned v) | None => None end
  | SUnknown _ => None
  end.

(* calculatePaddingSize(packetSize, mtu int) int; falling off the end of a function with a result does not compile *)
Definition run_pad (body : stmt) (packetSize mtu : Z) : option Z :=
  match exec body [("packetSize"%string, packetSize); ("mtu"%string, mtu)] with
  | Some (Returned r) => Some r
  | _ => None
  end.
