(* C01, source tie for the padding arithmetic: the interpreter of Outbound/PadAst.v run on the term that
   harness/cmd/padast generated from device/send.go (Gen/PadAst.v) equals the hand-written mirror
   Outbound.Model.pad_len, for ALL packetSize, mtu in [0, 2^62) (hence for the 2^31 range asked for).
   The proof script follows the shape of the generated term (it case-splits on the source's ifs in order),
   so a change of calculatePaddingSize makes this file fail even when the change is semantically neutral;
   the theorems themselves are semantic. *)
From Coq Require Import String.
From WG Require Import Base.Prelude Gen.Constants Outbound.Model Outbound.Proofs Outbound.PadAst Gen.PadAst.
Local Open Scope Z_scope.

Lemma wrap_small z : - two63 <= z < two63 -> wrap z = z.
Proof. unfold wrap, two63, two64. intros. lia. Qed.

(* the translator's value of PaddingMultiple is the one of Gen/Constants.v (compiled value printed by the device) *)
Lemma padding_multiple_is_PM : padding_multiple = EConst PM.
Proof. reflexivity. Qed.

Lemma lnot15 : (-16) = Z.lnot 15.
Proof. reflexivity. Qed.

(* the source's ((x + PaddingMultiple - 1) & ^(PaddingMultiple - 1)) under int semantics *)
Lemma round_ast x : 0 <= x < 2 ^ 62 ->
  Z.land (wrap (wrap (x + 16) - 1)) (-16) = roundup16 x.
Proof.
  intros H. rewrite (wrap_small (x + 16)) by (unfold two63; lia).
  rewrite wrap_small by (unfold two63; lia).
  rewrite lnot15, land_lnot15. unfold roundup16.
  replace (x + 16 - 1) with (x + 15) by lia. reflexivity.
Qed.

Ltac step :=
  cbn [exec eval evalb andthen lookup update is_set replace binop_sem unop_sem cmpop_sem
       String.eqb Ascii.eqb Bool.eqb andb].

Theorem ast_pad_correct_wide : forall p m, 0 <= p < 2 ^ 62 -> 0 <= m < 2 ^ 62 ->
  run_pad pad_body p m = Some (pad_len p m).
Proof.
  intros p m Hp Hm. rewrite pad_len_eq. unfold run_pad, pad_body. step.
  destruct (Z.eqb_spec m 0) as [E|E]; step.
  - (* mtu == 0 *)
    rewrite round_ast by lia. pose proof (roundup16_bounds p).
    rewrite wrap_small by (unfold two63; lia). reflexivity.
  - cbv zeta. destruct (Z.ltb_spec m p) as [L|L]; step.
    + (* lastUnit > mtu: lastUnit %= mtu *)
      destruct (Z.eqb_spec m 0) as [E'|_]; [lia|]. step.
      pose proof (rem_nonneg p m ltac:(lia) ltac:(lia)) as Hr.
      rewrite (wrap_small (Z.rem p m)) by (unfold two63; lia).
      rewrite round_ast by lia. pose proof (roundup16_bounds (Z.rem p m)).
      destruct (Z.ltb_spec m (roundup16 (Z.rem p m))); step;
        rewrite wrap_small by (unfold two63; lia); reflexivity.
    + rewrite round_ast by lia. pose proof (roundup16_bounds p).
      destruct (Z.ltb_spec m (roundup16 p)); step;
        rewrite wrap_small by (unfold two63; lia); reflexivity.
Qed.

(* the statement asked for: Go int is 64-bit; packet sizes and MTUs are below 2^31 *)
Theorem ast_pad_correct : forall p m, 0 <= p < 2 ^ 31 -> 0 <= m < 2 ^ 31 ->
  run_pad pad_body p m = Some (pad_len p m).
Proof. intros p m Hp Hm. apply ast_pad_correct_wide; lia. Qed.

(* C01's sentence, on the interpreted source: for a packet no larger than the MTU the padded length is the
   packet length rounded up to a multiple of 16, capped at the MTU; the padding is 0..15 bytes. *)
Theorem ast_pad_c01 : forall len mtu, 0 < len <= mtu -> mtu < 2 ^ 31 ->
  exists pad, run_pad pad_body len mtu = Some pad /\ 0 <= pad < 16 /\
              len + pad = Z.min (roundup16 len) mtu.
Proof.
  intros len mtu H Hm. exists (pad_len len mtu). split; [apply ast_pad_correct; lia|].
  split; [apply pad_lt_16; lia|apply pad_within_mtu; lia].
Qed.

(* mtu == 0 (no MTU known): round up to a multiple of 16 *)
Theorem ast_pad_mtu0 : forall len, 0 <= len < 2 ^ 31 ->
  exists pad, run_pad pad_body len 0 = Some pad /\ len + pad = roundup16 len.
Proof.
  intros len H. exists (pad_len len 0). split; [apply ast_pad_correct; lia|apply pad_mtu0; lia].
Qed.

(* smoke test of the executable interpreter (redundant with the theorem): a grid of sizes x mtus *)
Definition grid_sizes : list Z := [0; 1; 15; 16; 17; 31; 32; 1279; 1280; 1281; 1419; 1420; 1421; 1425; 1435; 1436;
                                   1499; 1500; 1501; 2840; 2855; 65535; 2147483647].
Definition grid_mtus : list Z := [0; 1; 15; 16; 17; 1280; 1420; 1425; 1500; 65535; 2147483647].
Definition grid_diff (body : stmt) : list (Z * Z) :=
  flat_map (fun m => flat_map (fun p =>
    match run_pad body p m with
    | Some r => if r =? pad_len p m then [] else [(p, m)]
    | None => [(p, m)]
    end) grid_sizes) grid_mtus.
Lemma ast_agrees_on_grid : grid_diff pad_body = [].
Proof. vm_compute. reflexivity. Qed.

Print Assumptions ast_pad_correct_wide.
Print Assumptions ast_pad_correct.
Print Assumptions ast_pad_c01.
Print Assumptions ast_pad_mtu0.
