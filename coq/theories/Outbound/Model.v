(* C01 — mirror of the outbound data path of device/send.go.

   classify / route : the switch in RoutineReadFromTUN (version nibble, full
                      header, destination bytes -> allowed-IPs lookup)
   pad_len          : calculatePaddingSize, line by line, on Z (Go int)
   peer_step        : StagePackets / SendStagedPackets / SendKeepalive /
                      SendHandshakeInitiation as far as the wire shows them
   step             : the slice model of the device: one event of the harness
                      -> the datagrams the device hands to the bind.

   Bytes are N below 256, packets are lists of bytes.  Peers are identified by
   their position in the peer list; endpoints by small numbers the harness
   assigns.  No proofs here. *)
From WG Require Import Base.Prelude Gen.Constants DataPath.Lpm.
Local Open Scope N_scope.

(* golang.org/x/net ipv4.HeaderLen / ipv6.HeaderLen (not device constants; the
   harness prints the compiled values into every case file, Check.env_ok). *)
Definition ipv4_HeaderLen : N := 20.
Definition ipv6_HeaderLen : N := 40.
Definition IPv4len : N := 4.
Definition IPv6len : N := 16.

Definition pkt := list N.
Definition blen (l : list N) : N := N.of_nat (length l).
Definition slice (l : list N) (off n : N) : list N :=
  firstn (N.to_nat n) (skipn (N.to_nat off) l).

(* RoutineReadFromTUN:  if sizes[i] < 1 { continue }
     switch elem.packet[0] >> 4 { case 4: if len < ipv4.HeaderLen {continue} ...
                                   case 6: if len < ipv6.HeaderLen {continue} ...
                                   default: (peer stays nil) } *)
Definition classify (p : pkt) : option fam :=
  match p with
  | [] => None
  | b0 :: _ =>
      let v := b0 / 16 in
      if v =? 4 then (if blen p <? ipv4_HeaderLen then None else Some V4)
      else if v =? 6 then (if blen p <? ipv6_HeaderLen then None else Some V6)
      else None
  end.

Definition dst_of (f : fam) (p : pkt) : list N :=
  match f with
  | V4 => slice p IPv4offsetDst IPv4len
  | V6 => slice p IPv6offsetDst IPv6len
  end.

Definition route (tbl : list entry) (p : pkt) : option N :=
  match classify p with
  | None => None
  | Some f => lookup tbl f (be_val (dst_of f p))
  end.

(* func calculatePaddingSize(packetSize, mtu int) int *)
Definition PM : Z := Z.of_N PaddingMultiple.
Definition pad_len (packetSize mtu : Z) : Z :=
  let lastUnit := packetSize in
  if (mtu =? 0)%Z then
    (Z.land (lastUnit + PM - 1) (Z.lnot (PM - 1)) - lastUnit)%Z
  else
    let lastUnit := if (mtu <? lastUnit)%Z then Z.rem lastUnit mtu else lastUnit in
    let paddedSize := Z.land (lastUnit + PM - 1) (Z.lnot (PM - 1)) in
    let paddedSize := if (mtu <? paddedSize)%Z then mtu else paddedSize in
    (paddedSize - lastUnit)%Z.

(* RoutineEncryption: elem.packet = append(elem.packet, paddingZeros[:paddingSize]...) *)
Definition plaintext (p : pkt) (mtu : Z) : list N :=
  p ++ repeat 0 (Z.to_nat (pad_len (Z.of_nat (length p)) mtu)).

(* ---------------------------------------------------------------- device slice *)

Record sess := { ss_ridx : N; ss_ctr : N; ss_expired : bool }.

Record peer := {
  p_ep : option N;             (* peer.endpoint.val *)
  p_sess : option sess;        (* keypairs.current: remoteIndex, sendNonce, age beyond RejectAfterTime *)
  p_hs_recent : bool;          (* time.Since(lastSentHandshake) < RekeyTimeout *)
  p_init_out : bool;           (* an initiation of ours was transmitted and is unanswered *)
  p_staged : list (list pkt)   (* peer.queue.staged: containers, oldest first *)
}.

Record state := { s_tbl : list entry; s_mtu : Z; s_up : bool; s_peers : list peer }.

Inductive event :=
| TunBatch (pkts : list pkt)       (* one tun.Read batch *)
| TunBatchFault (pkts : list pkt) (q k : N)
                                   (* the same, but the first bind.Send toward peer q's endpoint transmits only its first k
                                      buffers and returns an error (or conn.ErrUDPGSODisabled{RetryErr: nil} after all of them) *)
| MtuUpdate (m : Z)                (* tun.EventMTUUpdate with tun.MTU() = m *)
| RefHs (p ridx ep : N)            (* the remote initiates from ep announcing index ridx, and confirms with a keepalive *)
| AnswerHs (p ridx ep : N)         (* the remote answers our outstanding initiation from ep, announcing ridx *)
| Roam (p ep : N)                  (* authenticated keepalive of the remote arriving from ep *)
| SetEp (p ep : N)                 (* UAPI set with endpoint= in the section of peer p; the section ends with SendStagedPackets *)
| ReplayInit (p ep : N)            (* a byte-identical copy of p's most recent (already consumed) handshake initiation arrives
                                      from ep, later than HandshakeInitationRate after the original: its timestamp is not
                                      greater than the last one, so it is dropped: no response, no new key, endpoint unchanged *)
| ShiftHs (p : N)                  (* lastSentHandshake moved more than RekeyTimeout into the past *)
| Expire (p : N)                   (* keypair creation moved more than RejectAfterTime into the past *)
| Down                             (* device.Down(): bind closed, every peer stopped (keypairs, handshake and staged packets flushed) *)
| Up.                              (* device.Up(): bind open, every peer started (lastSentHandshake moved into the past) *)

Inductive out :=
| OInit (p ep : N)
| OResp (p ep rcv : N)
| OData (p ep rcv ctr : N) (pk : pkt) (mtu : Z).   (* plaintext = plaintext pk mtu *)

(* StagePackets: push; when the queue is full drop the oldest container first *)
Definition stage (q : list (list pkt)) (c : list pkt) : list (list pkt) :=
  (if QueueStagedSize <=? N.of_nat (length q) then tl q else q) ++ [c].

Definition usable (p : peer) : option sess :=
  match p_sess p with
  | Some s => if ss_expired s || (RejectAfterMessages <=? ss_ctr s) then None else Some s
  | None => None
  end.

Fixpoint number (i ep rcv ctr : N) (mtu : Z) (l : list pkt) : list out :=
  match l with
  | [] => []
  | x :: t => OData i ep rcv ctr x mtu :: number i ep rcv (ctr + 1) mtu t
  end.

(* SendHandshakeInitiation(false) as far as the wire shows it *)
Definition initiate (i : N) (p : peer) : peer * list out :=
  if p_hs_recent p then (p, [])
  else
    ({| p_ep := p_ep p; p_sess := p_sess p; p_hs_recent := true;
        p_init_out := match p_ep p with Some _ => true | None => false end;
        p_staged := p_staged p |},
     match p_ep p with Some ep => [OInit i ep] | None => [] end).

(* SendStagedPackets *)
Definition send_staged (mtu : Z) (i : N) (p : peer) : peer * list out :=
  match p_staged p with
  | [] => (p, [])
  | _ =>
      match usable p with
      | None => initiate i p
      | Some s =>
          let l := concat (p_staged p) in
          ({| p_ep := p_ep p;
              p_sess := Some {| ss_ridx := ss_ridx s; ss_ctr := ss_ctr s + N.of_nat (length l); ss_expired := ss_expired s |};
              p_hs_recent := p_hs_recent p; p_init_out := p_init_out p; p_staged := [] |},
           match p_ep p with
           | Some ep => number i ep (ss_ridx s) (ss_ctr s) mtu l
           | None => []           (* SendBuffers: "no known endpoint for peer" *)
           end)
      end
  end.

Definition set_sess (p : peer) (ridx ep : N) : peer :=
  {| p_ep := Some ep; p_sess := Some {| ss_ridx := ridx; ss_ctr := 0; ss_expired := false |};
     p_hs_recent := true; p_init_out := false; p_staged := p_staged p |}.

(* RoutineReadFromTUN for the packets routed to peer i, then StagePackets + SendStagedPackets *)
Definition tun_step (tbl : list entry) (mtu : Z) (i : N) (p : peer) (pkts : list pkt) : peer * list out :=
  let mine := filter (fun x => match route tbl x with Some j => j =? i | None => false end) pkts in
  match mine with
  | [] => (p, [])
  | _ => send_staged mtu i
           {| p_ep := p_ep p; p_sess := p_sess p; p_hs_recent := p_hs_recent p;
              p_init_out := p_init_out p; p_staged := stage (p_staged p) mine |}
  end.

Definition peer_step (tbl : list entry) (mtu : Z) (up : bool) (i : N) (p : peer) (ev : event) : peer * list out :=
  match ev with
  | Down =>
      (* Peer.Stop: ZeroAndFlushAll *)
      ({| p_ep := p_ep p; p_sess := None; p_hs_recent := p_hs_recent p; p_init_out := false; p_staged := [] |}, [])
  | Up =>
      (* Peer.Start (only if it was not running): lastSentHandshake = now - (RekeyTimeout + 1 s) *)
      if up then (p, [])
      else ({| p_ep := p_ep p; p_sess := p_sess p; p_hs_recent := false; p_init_out := p_init_out p;
               p_staged := p_staged p |}, [])
  | _ =>
  (* device down: peers are not running, the TUN reader drops what it routes
     (peer.isRunning false) and the closed bind delivers nothing *)
  if negb up then (p, []) else
  match ev with
  | Down | Up => (p, [])
  | TunBatch pkts => tun_step tbl mtu i p pkts
  | TunBatchFault pkts q k =>
      (* RoutineSequentialSender: the elements go back to the pool whatever SendBuffers returns, the error
         is logged and the loop continues: what the bind did not transmit is never transmitted.  (A TUN batch
         makes at most one Send call per peer: the flush of the container just staged, or one initiation.) *)
      let '(p', o) := tun_step tbl mtu i p pkts in
      if q =? i then
        (* an initiation the bind refused is not on the wire: nothing the remote could answer
           (the handshake state it belonged to replaced the one of any earlier initiation) *)
        (match o with
         | OInit _ _ :: _ =>
             if k =? 0
             then {| p_ep := p_ep p'; p_sess := p_sess p'; p_hs_recent := p_hs_recent p'; p_init_out := false;
                     p_staged := p_staged p' |}
             else p'
         | _ => p'
         end, firstn (N.to_nat k) o)
      else (p', o)
  | MtuUpdate _ => (p, [])
  | ReplayInit _ _ => (p, [])
  | SetEp j ep =>
      (* handlePeerLine "endpoint", then handlePostConfig of the section: peer.Start() (no-op, it runs) and
         peer.SendStagedPackets(): whatever is staged goes out (or an initiation) toward the new endpoint *)
      if j =? i then
        send_staged mtu i {| p_ep := Some ep; p_sess := p_sess p; p_hs_recent := p_hs_recent p;
                             p_init_out := p_init_out p; p_staged := p_staged p |}
      else (p, [])
  | RefHs j ridx ep =>
      if j =? i then
        (* response goes out (lastSentHandshake = now), the confirming keepalive
           promotes the keypair and SendStagedPackets flushes *)
        let '(p', o) := send_staged mtu i (set_sess p ridx ep) in (p', OResp i ep ridx :: o)
      else (p, [])
  | AnswerHs j ridx ep =>
      if (j =? i) && p_init_out p then
        (* ConsumeMessageResponse, BeginSymmetricSession, SendKeepalive.  Consuming a response
           sends no handshake message: lastSentHandshake keeps its value *)
        let p0 := set_sess p ridx ep in
        let p1 := {| p_ep := p_ep p0; p_sess := p_sess p0; p_hs_recent := p_hs_recent p;
                     p_init_out := p_init_out p0; p_staged := p_staged p0 |} in
        let p2 := match p_staged p1 with
                  | [] => {| p_ep := p_ep p1; p_sess := p_sess p1; p_hs_recent := p_hs_recent p1;
                             p_init_out := p_init_out p1; p_staged := [ [ [] ] ] |}
                  | _ => p1
                  end in
        send_staged mtu i p2
      else (p, [])
  | Roam j ep =>
      if (j =? i) && match usable p with Some _ => true | None => false end then
        ({| p_ep := Some ep; p_sess := p_sess p; p_hs_recent := p_hs_recent p;
            p_init_out := p_init_out p; p_staged := p_staged p |}, [])
      else (p, [])
  | ShiftHs j =>
      if j =? i then
        ({| p_ep := p_ep p; p_sess := p_sess p; p_hs_recent := false;
            p_init_out := p_init_out p; p_staged := p_staged p |}, [])
      else (p, [])
  | Expire j =>
      if j =? i then
        ({| p_ep := p_ep p;
            p_sess := match p_sess p with
                      | Some s => Some {| ss_ridx := ss_ridx s; ss_ctr := ss_ctr s; ss_expired := true |}
                      | None => None
                      end;
            p_hs_recent := p_hs_recent p; p_init_out := p_init_out p; p_staged := p_staged p |}, [])
      else (p, [])
  end
  end.

Fixpoint step_peers (tbl : list entry) (mtu : Z) (up : bool) (ev : event) (i : N) (ps : list peer)
  : list peer * list out :=
  match ps with
  | [] => ([], [])
  | p :: t =>
      let '(p', o) := peer_step tbl mtu up i p ev in
      let '(t', os) := step_peers tbl mtu up ev (i + 1) t in
      (p' :: t', o ++ os)
  end.

(* RoutineTUNEventReader: negative values ignored, values above MaxContentSize capped *)
Definition mtu_after (mtu : Z) (ev : event) : Z :=
  match ev with
  | MtuUpdate m => if (m <? 0)%Z then mtu else Z.min m (Z.of_N MaxContentSize)
  | _ => mtu
  end.

Definition step (st : state) (ev : event) : state * list out :=
  let mtu := mtu_after (s_mtu st) ev in
  let '(ps, o) := step_peers (s_tbl st) mtu (s_up st) ev 0 (s_peers st) in
  ({| s_tbl := s_tbl st; s_mtu := mtu;
      s_up := match ev with Down => false | Up => true | _ => s_up st end;
      s_peers := ps |}, o).

(* Round 10.  Two authenticating responses to one initiation of ours — (Sender ra, from ea) and (Sender rb, from eb): the
   Sender word is outside the Noise transcript, so a copy of the genuine response with another Sender and a recomputed MAC1
   authenticates too — reach two handshake workers at once.  Exactly one completes the handshake (ConsumeMessageResponse
   looks at the state again under the write lock); the schedule w says which; the other is refused and leaves no trace. *)
Definition answer_race (p ra ea rb eb : N) (w : bool) : event :=
  if w then AnswerHs p rb eb else AnswerHs p ra ea.

