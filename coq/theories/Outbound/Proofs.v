(* C01 — proofs about the outbound slice model (Outbound/Model.v).
   Padding arithmetic, silence on unroutable packets, shape of the emitted
   datagrams, and the conservation argument "every tun packet is sent at most
   once, to the owner of its longest matching prefix". *)
From WG Require Import Base.Prelude Gen.Constants DataPath.Lpm Outbound.Model.
Local Open Scope N_scope.

(* ------------------------------------------------------------------ padding *)
Section Padding.
Local Open Scope Z_scope.

Definition roundup16 (x : Z) : Z := 16 * ((x + 15) / 16).

Lemma PM_16 : PM = 16.
Proof. reflexivity. Qed.

Lemma lnot15_ldiff x : Z.land x (Z.lnot 15) = Z.ldiff x (Z.ones 4).
Proof. rewrite Z.ldiff_land. reflexivity. Qed.

Lemma land_lnot15 x : Z.land x (Z.lnot 15) = 16 * (x / 16).
Proof.
  rewrite lnot15_ldiff, Z.ldiff_ones_r by lia.
  rewrite Z.shiftl_mul_pow2, Z.shiftr_div_pow2 by lia.
  change (2 ^ 4) with 16. lia.
Qed.

Lemma round_eq x : Z.land (x + 16 - 1) (Z.lnot (16 - 1)) = roundup16 x.
Proof.
  change (16 - 1) with 15. rewrite land_lnot15. unfold roundup16.
  replace (x + 16 - 1) with (x + 15) by lia. reflexivity.
Qed.

Lemma roundup16_bounds x : x <= roundup16 x < x + 16.
Proof. unfold roundup16. lia. Qed.

Lemma roundup16_0 : roundup16 0 = 0.
Proof. reflexivity. Qed.

Lemma rem_nonneg a b : 0 <= a -> 0 < b -> 0 <= Z.rem a b < b.
Proof. intros Ha Hb. rewrite Z.rem_mod_nonneg by lia. lia. Qed.

(* pad_len with the bit operations replaced by roundup16 *)
Lemma pad_len_eq len mtu :
  pad_len len mtu =
  if mtu =? 0 then roundup16 len - len
  else
    let lu := if mtu <? len then Z.rem len mtu else len in
    (if mtu <? roundup16 lu then mtu else roundup16 lu) - lu.
Proof.
  unfold pad_len. rewrite PM_16. rewrite !round_eq. reflexivity.
Qed.

Lemma pad_lt_16 : forall len mtu, 0 <= len -> 0 <= mtu -> 0 <= pad_len len mtu < 16.
Proof.
  intros len mtu Hl Hm. rewrite pad_len_eq.
  destruct (Z.eqb_spec mtu 0) as [E|E].
  - pose proof (roundup16_bounds len). lia.
  - cbv zeta. destruct (Z.ltb_spec mtu len) as [L|L].
    + pose proof (rem_nonneg len mtu Hl ltac:(lia)) as Hr.
      pose proof (roundup16_bounds (Z.rem len mtu)).
      destruct (Z.ltb_spec mtu (roundup16 (Z.rem len mtu))); lia.
    + pose proof (roundup16_bounds len).
      destruct (Z.ltb_spec mtu (roundup16 len)); lia.
Qed.

Lemma pad_within_mtu : forall len mtu, 0 < len <= mtu ->
  len + pad_len len mtu = Z.min (roundup16 len) mtu.
Proof.
  intros len mtu H. rewrite pad_len_eq.
  destruct (Z.eqb_spec mtu 0) as [E|E]; [lia|]. cbv zeta.
  destruct (Z.ltb_spec mtu len) as [L|L]; [lia|].
  destruct (Z.ltb_spec mtu (roundup16 len)); lia.
Qed.

Lemma pad_mtu0 : forall len, 0 <= len -> len + pad_len len 0 = roundup16 len.
Proof. intros len _. rewrite pad_len_eq. cbn [Z.eqb]. lia. Qed.

Lemma pad_keepalive : forall mtu, 0 <= mtu -> pad_len 0 mtu = 0.
Proof.
  intros mtu H. rewrite pad_len_eq.
  destruct (Z.eqb_spec mtu 0) as [E|E]; [reflexivity|]. cbv zeta.
  destruct (Z.ltb_spec mtu 0) as [L|L]; [lia|].
  rewrite roundup16_0. destruct (Z.ltb_spec mtu 0); lia.
Qed.

End Padding.

Lemma plaintext_shape : forall p mtu, (0 <= mtu)%Z ->
  exists n : nat, plaintext p mtu = p ++ repeat 0 n /\ (n < 16)%nat /\
                  Z.of_nat n = pad_len (Z.of_nat (length p)) mtu.
Proof.
  intros p mtu Hm.
  pose proof (pad_lt_16 (Z.of_nat (length p)) mtu ltac:(lia) Hm) as H.
  exists (Z.to_nat (pad_len (Z.of_nat (length p)) mtu)).
  split; [reflexivity|]. split; lia.
Qed.

Lemma plaintext_nil mtu : (0 <= mtu)%Z -> plaintext [] mtu = [].
Proof.
  intros H. unfold plaintext. cbn [length]. change (Z.of_nat 0) with 0%Z.
  rewrite pad_keepalive by exact H. reflexivity.
Qed.

(* ------------------------------------------------- silence on unroutable input *)

Lemma classify_none_unroutable tbl p : classify p = None -> route tbl p = None.
Proof. intros H. unfold route. rewrite H. reflexivity. Qed.

Lemma filter_none {A} (f : A -> bool) l : Forall (fun x => f x = false) l -> filter f l = [].
Proof.
  induction 1 as [|x l Hx _ IH]; cbn [filter]; [reflexivity|]. rewrite Hx. exact IH.
Qed.

Lemma tun_step_silent tbl mtu i p pkts :
  Forall (fun p => route tbl p = None) pkts -> tun_step tbl mtu i p pkts = (p, []).
Proof.
  intros H. unfold tun_step. rewrite filter_none; [reflexivity|].
  eapply Forall_impl; [|exact H]. cbv beta. intros a Ha. rewrite Ha. reflexivity.
Qed.

Lemma step_peers_silent tbl mtu pkts :
  Forall (fun p => route tbl p = None) pkts ->
  forall up ps i, step_peers tbl mtu up (TunBatch pkts) i ps = (ps, []).
Proof.
  intros H up. induction ps as [|p t IH]; intros i; cbn [step_peers]; [reflexivity|].
  cbn [peer_step]. destruct up; cbn [negb]; [|rewrite IH; reflexivity].
  rewrite (tun_step_silent _ _ _ _ _ H), IH. reflexivity.
Qed.

Lemma step_peers_silent_fault tbl mtu pkts q k :
  Forall (fun p => route tbl p = None) pkts ->
  forall up ps i, step_peers tbl mtu up (TunBatchFault pkts q k) i ps = (ps, []).
Proof.
  intros H up. induction ps as [|p t IH]; intros i; cbn [step_peers]; [reflexivity|].
  cbn [peer_step]. destruct up; cbn [negb]; [|rewrite IH; reflexivity].
  rewrite (tun_step_silent _ _ _ _ _ H), IH. rewrite firstn_nil.
  destruct (q =? i); reflexivity.
Qed.

Lemma unroutable_silent : forall st pkts,
  Forall (fun p => route (s_tbl st) p = None) pkts -> step st (TunBatch pkts) = (st, []).
Proof.
  intros st pkts H. unfold step. cbn [mtu_after].
  rewrite (step_peers_silent _ _ _ H). destruct st; reflexivity.
Qed.

Lemma unroutable_silent_fault : forall st pkts q k,
  Forall (fun p => route (s_tbl st) p = None) pkts ->
  step st (TunBatchFault pkts q k) = (st, []).
Proof.
  intros st pkts q k H. unfold step. cbn [mtu_after].
  rewrite (step_peers_silent_fault _ _ _ q k H). destruct st; reflexivity.
Qed.

Lemma unroutable_silent_single : forall st p,
  (classify p = None \/ route (s_tbl st) p = None) -> step st (TunBatch [p]) = (st, []).
Proof.
  intros st p H. apply unroutable_silent. constructor; [|constructor].
  destruct H as [H|H]; [apply classify_none_unroutable; exact H|exact H].
Qed.

(* ------------------------------------------------------------ generic facts *)

Lemma outs_cons {S O R : Type} (stp : S -> O -> S * R) s o ops :
  outs stp s (o :: ops) = snd (stp s o) :: outs stp (fst (stp s o)) ops.
Proof.
  unfold outs. cbn [run]. destruct (stp s o) as [s1 r]. cbn [fst snd].
  destruct (run stp s1 ops). reflexivity.
Qed.

(* ---------------------------------------------------------------- numbering *)

Lemma counters_consecutive : forall i ep rcv c mtu l k o,
  nth_error (number i ep rcv c mtu l) k = Some o ->
  exists pk, o = OData i ep rcv (c + N.of_nat k) pk mtu /\ nth_error l k = Some pk.
Proof.
  intros i ep rcv c mtu l. revert c. induction l as [|x t IH]; intros c k o H.
  - destruct k; discriminate.
  - destruct k as [|k]; cbn [number nth_error] in *.
    + inversion H; subst. exists x. split; [|reflexivity]. f_equal. lia.
    + apply IH in H. destruct H as (pk & -> & Hn). exists pk. split; [|exact Hn].
      f_equal. lia.
Qed.

Lemma number_in i ep rcv c mtu l o : In o (number i ep rcv c mtu l) ->
  exists k pk, o = OData i ep rcv (c + N.of_nat k) pk mtu /\ nth_error l k = Some pk.
Proof.
  intros H. apply In_nth_error in H. destruct H as [k H]. exists k.
  apply counters_consecutive. exact H.
Qed.

Lemma usable_some p s : usable p = Some s -> p_sess p = Some s /\ ss_expired s = false.
Proof.
  unfold usable. destruct (p_sess p) as [s0|]; [|discriminate].
  destruct (ss_expired s0 || (RejectAfterMessages <=? ss_ctr s0)) eqn:E; [discriminate|].
  intros H; inversion H; subst. apply orb_false_elim in E. destruct E as [E _].
  split; [reflexivity|exact E].
Qed.

(* ------------------------------------------------------ one peer, one event *)

Lemma initiate_no_data i p p' os :
  initiate i p = (p', os) ->
  p_sess p' = p_sess p /\ p_staged p' = p_staged p /\
  forall o, In o os -> exists ep, o = OInit i ep.
Proof.
  unfold initiate. destruct (p_hs_recent p); intros H; inversion H; subst; clear H; cbn.
  - repeat split; auto. intros o [].
  - repeat split; auto. destruct (p_ep p) as [e|]; intros o Ho; [|destruct Ho].
    destruct Ho as [<-|[]]. exists e. reflexivity.
Qed.

Lemma send_staged_data mtu i p p' os q ep rcv ctr pk m :
  send_staged mtu i p = (p', os) -> In (OData q ep rcv ctr pk m) os ->
  q = i /\ m = mtu /\ In pk (concat (p_staged p)) /\
  exists s, p_sess p' = Some s /\ ss_ridx s = rcv /\ ss_expired s = false /\
            p_ep p' = Some ep /\ ctr < ss_ctr s.
Proof.
  unfold send_staged. destruct (p_staged p) as [|c0 q0] eqn:Hst.
  - intros H; inversion H; subst. intros [].
  - destruct (usable p) as [s|] eqn:Hu.
    + apply usable_some in Hu. destruct Hu as [Hs He].
      destruct (p_ep p) as [e|] eqn:Hep; intros H; inversion H; subst; clear H; [|intros []].
      intros Hin. apply number_in in Hin. destruct Hin as (k & pk' & Heq & Hn).
      inversion Heq; subst. repeat split; auto.
      * eapply nth_error_In; exact Hn.
      * eexists. cbn. repeat split; auto.
        assert (k < length (concat (c0 :: q0)))%nat by (apply nth_error_Some; cbn [concat]; congruence).
        cbn [ss_ctr concat] in *. lia.
    + intros H. apply initiate_no_data in H. destruct H as (_ & _ & H).
      intros Hin. apply H in Hin. destruct Hin as [e He]. discriminate.
Qed.

Lemma send_staged_sess mtu i p p' os s' :
  send_staged mtu i p = (p', os) -> p_sess p' = Some s' ->
  exists s, p_sess p = Some s /\ ss_ridx s = ss_ridx s'.
Proof.
  unfold send_staged. destruct (p_staged p) as [|c0 q0] eqn:Hst.
  - intros H; inversion H; subst. intros Hs. exists s'. auto.
  - destruct (usable p) as [s|] eqn:Hu.
    + apply usable_some in Hu. destruct Hu as [Hs He].
      intros H; inversion H; subst; clear H. cbn. intros H; inversion H; subst; clear H.
      exists s. auto.
    + intros H. apply initiate_no_data in H. destruct H as (H & _ & _).
      rewrite H. intros Hs. exists s'. auto.
Qed.

Lemma in_firstn {A} (l : list A) n x : In x (firstn n l) -> In x l.
Proof.
  revert n. induction l as [|a l IH]; intros [|n]; cbn [firstn In]; try contradiction.
  intros [H|H]; [left; exact H|right; exact (IH _ H)].
Qed.

Lemma tun_step_data tbl mtu i p pkts p' os q ep rcv ctr pk m :
  tun_step tbl mtu i p pkts = (p', os) -> In (OData q ep rcv ctr pk m) os ->
  q = i /\ m = mtu /\
  exists s, p_sess p' = Some s /\ ss_ridx s = rcv /\ ss_expired s = false /\
            p_ep p' = Some ep /\ ctr < ss_ctr s.
Proof.
  unfold tun_step.
  match goal with |- context [filter ?f pkts] => destruct (filter f pkts) as [|m0 mt] end.
  - intros H; inversion H; subst. intros [].
  - intros H Hin. destruct (send_staged_data _ _ _ _ _ _ _ _ _ _ _ H Hin) as (A & B & _ & C). auto.
Qed.

Lemma tun_step_sess tbl mtu i p pkts p' os s' :
  tun_step tbl mtu i p pkts = (p', os) -> p_sess p' = Some s' ->
  exists s, p_sess p = Some s /\ ss_ridx s = ss_ridx s'.
Proof.
  unfold tun_step.
  match goal with |- context [filter ?f pkts] => destruct (filter f pkts) as [|m0 mt] end.
  - intros H; inversion H; subst. intros Hs. exists s'. auto.
  - intros H Hs. exact (send_staged_sess _ _ _ _ _ _ H Hs).
Qed.

(* a peer with the "initiation outstanding" flag cleared *)
Definition forget_init (p : peer) : peer :=
  {| p_ep := p_ep p; p_sess := p_sess p; p_hs_recent := p_hs_recent p; p_init_out := false;
     p_staged := p_staged p |}.

(* the peer after a refused Send: an initiation that was not transmitted is not outstanding *)
Definition fault_adj (o : list out) (k : N) (p' : peer) : peer :=
  match o with
  | OInit _ _ :: _ => if k =? 0 then forget_init p' else p'
  | _ => p'
  end.

Lemma fault_adj_fields o k p' :
  p_ep (fault_adj o k p') = p_ep p' /\ p_sess (fault_adj o k p') = p_sess p' /\
  p_staged (fault_adj o k p') = p_staged p' /\ p_hs_recent (fault_adj o k p') = p_hs_recent p' /\
  forget_init (fault_adj o k p') = forget_init p'.
Proof.
  unfold fault_adj. destruct o as [|[| |] o]; try (repeat split; reflexivity).
  destruct (k =? 0); repeat split; reflexivity.
Qed.

Lemma peer_step_fault_eq tbl mtu i p pkts q k :
  peer_step tbl mtu true i p (TunBatchFault pkts q k) =
  let '(p', o) := tun_step tbl mtu i p pkts in
  if q =? i then (fault_adj o k p', firstn (N.to_nat k) o) else (p', o).
Proof. reflexivity. Qed.

Lemma peer_step_fault_inv tbl mtu i p pkts q k p' os :
  peer_step tbl mtu true i p (TunBatchFault pkts q k) = (p', os) ->
  exists p1 o1, tun_step tbl mtu i p pkts = (p1, o1) /\
    p_ep p' = p_ep p1 /\ p_sess p' = p_sess p1 /\ p_staged p' = p_staged p1 /\
    p_hs_recent p' = p_hs_recent p1 /\ forget_init p' = forget_init p1 /\
    p' = (if q =? i then fault_adj o1 k p1 else p1) /\
    os = if q =? i then firstn (N.to_nat k) o1 else o1.
Proof.
  rewrite peer_step_fault_eq. destruct (tun_step tbl mtu i p pkts) as [p1 o1].
  intros H. exists p1, o1. split; [reflexivity|].
  destruct (q =? i); inversion H; subst; clear H.
  - destruct (fault_adj_fields o1 k p1) as (A & B & C & D & E). repeat split; assumption.
  - repeat split; reflexivity.
Qed.

Lemma peer_step_data tbl mtu up i p ev p' os q ep rcv ctr pk m :
  peer_step tbl mtu up i p ev = (p', os) -> In (OData q ep rcv ctr pk m) os ->
  q = i /\ m = mtu /\
  exists s, p_sess p' = Some s /\ ss_ridx s = rcv /\ ss_expired s = false /\
            p_ep p' = Some ep /\ ctr < ss_ctr s.
Proof.
  destruct ev as [pkts|pkts fq fk|mm|j ridx e|j ridx e|j e|sj se|rj re|j|j| |]; cbn [peer_step].
  1-10: destruct up; cbn [negb]; [|intros H; inversion H; subst; intros []].
  11: intros H; inversion H; subst; intros [].
  11: destruct up; intros H; inversion H; subst; intros [].
  8: intros H; inversion H; subst; intros [].
  7: destruct (sj =? i);
       [intros H Hin; destruct (send_staged_data _ _ _ _ _ _ _ _ _ _ _ H Hin) as (A & B & _ & C); auto
       |intros H; inversion H; subst; intros []].
  - apply tun_step_data.
  - intros H Hin. apply peer_step_fault_inv in H.
    destruct H as (p1 & o1 & Ht & Eep & Esess & _ & _ & _ & _ & ->).
    rewrite Eep, Esess. eapply tun_step_data; [exact Ht|].
    destruct (fq =? i); [apply in_firstn in Hin|]; exact Hin.
  - intros H; inversion H; subst. intros [].
  - destruct (j =? i).
    + destruct (send_staged mtu i (set_sess p ridx e)) as [p1 o1] eqn:Hs.
      intros H; inversion H; subst; clear H. intros [Hin|Hin]; [discriminate|].
      destruct (send_staged_data _ _ _ _ _ _ _ _ _ _ _ Hs Hin) as (A & B & _ & C). auto.
    + intros H; inversion H; subst. intros [].
  - destruct ((j =? i) && p_init_out p).
    + intros H Hin. destruct (send_staged_data _ _ _ _ _ _ _ _ _ _ _ H Hin) as (A & B & _ & C). auto.
    + intros H; inversion H; subst. intros [].
  - match goal with |- context [if ?c then _ else _] => destruct c end;
      intros H; inversion H; subst; intros [].
  - destruct (j =? i); intros H; inversion H; subst; intros [].
  - destruct (j =? i); intros H; inversion H; subst; intros [].
Qed.

Lemma peer_step_sess tbl mtu up i p ev p' os s' :
  peer_step tbl mtu up i p ev = (p', os) -> p_sess p' = Some s' ->
  (exists s, p_sess p = Some s /\ ss_ridx s = ss_ridx s') \/
  (exists ep, ev = RefHs i (ss_ridx s') ep \/ ev = AnswerHs i (ss_ridx s') ep).
Proof.
  destruct ev as [pkts|pkts fq fk|mm|j ridx e|j ridx e|j e|sj se|rj re|j|j| |]; cbn [peer_step].
  1-10: destruct up; cbn [negb];
         [|intros H; inversion H; subst; intros Hs; left; exists s'; auto].
  11: intros H; inversion H; subst; cbn [p_sess]; discriminate.
  11: destruct up; intros H; inversion H; subst; cbn [p_sess]; intros Hs; left; exists s'; auto.
  8: intros H; inversion H; subst; intros Hs; left; exists s'; auto.
  7: destruct (sj =? i);
       [intros H Hs; left; exact (send_staged_sess _ _ _ _ _ _ H Hs)
       |intros H; inversion H; subst; cbn [p_sess]; intros Hs; left; exists s'; auto].
  - intros H Hs. left. exact (tun_step_sess _ _ _ _ _ _ _ _ H Hs).
  - intros H Hs. apply peer_step_fault_inv in H.
    destruct H as (p1 & o1 & Ht & _ & Esess & _). rewrite Esess in Hs. left.
    exact (tun_step_sess _ _ _ _ _ _ _ _ Ht Hs).
  - intros H; inversion H; subst. intros Hs. left. exists s'. auto.
  - destruct (N.eqb_spec j i) as [->|Hj].
    + destruct (send_staged mtu i (set_sess p ridx e)) as [p1 o1] eqn:Hss.
      intros H; inversion H; subst; clear H. intros Hs.
      destruct (send_staged_sess _ _ _ _ _ _ Hss Hs) as (s & Hs0 & Hr).
      cbn in Hs0. inversion Hs0; subst. cbn in Hr. rewrite <- Hr.
      right. exists e. left. reflexivity.
    + intros H; inversion H; subst. intros Hs. left. exists s'. auto.
  - destruct (N.eqb_spec j i) as [->|Hj]; cbn [andb].
    + destruct (p_init_out p).
      * intros H Hs. destruct (send_staged_sess _ _ _ _ _ _ H Hs) as (s & Hs0 & Hr).
        assert (Hs1 : Some {| ss_ridx := ridx; ss_ctr := 0; ss_expired := false |} = Some s).
        { rewrite <- Hs0. cbn. destruct (p_staged p); reflexivity. }
        inversion Hs1; subst. cbn in Hr. rewrite <- Hr.
        right. exists e. right. reflexivity.
      * intros H; inversion H; subst. intros Hs. left. exists s'. auto.
    + intros H; inversion H; subst. intros Hs. left. exists s'. auto.
  - match goal with |- context [if ?c then _ else _] => destruct c end;
      intros H; inversion H; subst; cbn; intros Hs; left; exists s'; auto.
  - destruct (j =? i); intros H; inversion H; subst; cbn; intros Hs; left; exists s'; auto.
  - destruct (j =? i); intros H; inversion H; subst; cbn; intros Hs; [|left; exists s'; auto].
    destruct (p_sess p) as [s|]; [|discriminate]. inversion Hs; subst. cbn.
    left. exists s. auto.
Qed.

(* ------------------------------------------------------- the list of peers *)

Lemma step_peers_nth tbl mtu up ev : forall ps i ps' os,
  step_peers tbl mtu up ev i ps = (ps', os) ->
  forall k p', nth_error ps' k = Some p' ->
  exists p o, nth_error ps k = Some p /\
              peer_step tbl mtu up (i + N.of_nat k) p ev = (p', o) /\ incl o os.
Proof.
  induction ps as [|p t IH]; intros i ps' os; cbn [step_peers].
  - intros H; inversion H; subst. intros [|k] p'; discriminate.
  - destruct (peer_step tbl mtu up i p ev) as [p1 o1] eqn:Hp.
    destruct (step_peers tbl mtu up ev (i + 1) t) as [t1 os1] eqn:Ht.
    intros H; inversion H; subst; clear H. intros [|k] p'; cbn [nth_error].
    + intros H; inversion H; subst. exists p, o1. split; [reflexivity|].
      split; [|apply incl_appl, incl_refl].
      replace (i + N.of_nat 0) with i by lia. exact Hp.
    + intros H. destruct (IH _ _ _ Ht _ _ H) as (p0 & o & Hn & Hs & Hi).
      exists p0, o. split; [exact Hn|]. split; [|apply incl_appr; exact Hi].
      replace (i + N.of_nat (S k)) with (i + 1 + N.of_nat k) by lia. exact Hs.
Qed.

Lemma step_peers_out tbl mtu up ev : forall ps i ps' os x,
  step_peers tbl mtu up ev i ps = (ps', os) -> In x os ->
  exists k p p' o, nth_error ps k = Some p /\ nth_error ps' k = Some p' /\
                   peer_step tbl mtu up (i + N.of_nat k) p ev = (p', o) /\ In x o.
Proof.
  induction ps as [|p t IH]; intros i ps' os x; cbn [step_peers].
  - intros H; inversion H; subst. intros [].
  - destruct (peer_step tbl mtu up i p ev) as [p1 o1] eqn:Hp.
    destruct (step_peers tbl mtu up ev (i + 1) t) as [t1 os1] eqn:Ht.
    intros H; inversion H; subst; clear H. intros Hin. apply in_app_or in Hin.
    destruct Hin as [Hin|Hin].
    + exists 0%nat, p, p1, o1. cbn [nth_error]. repeat split; auto.
      replace (i + N.of_nat 0) with i by lia. exact Hp.
    + destruct (IH _ _ _ _ Ht Hin) as (k & p0 & p0' & o & A & B & C & D).
      exists (S k), p0, p0', o. cbn [nth_error]. repeat split; auto.
      replace (i + N.of_nat (S k)) with (i + 1 + N.of_nat k) by lia. exact C.
Qed.

(* ----------------------------------------------------------- the whole step *)

Lemma step_tbl st ev : s_tbl (fst (step st ev)) = s_tbl st.
Proof. unfold step. destruct (step_peers _ _ _ _ _ _). reflexivity. Qed.

Lemma step_mtu st ev : s_mtu (fst (step st ev)) = mtu_after (s_mtu st) ev.
Proof. unfold step. destruct (step_peers _ _ _ _ _ _). reflexivity. Qed.

Lemma mtu_after_nonneg mtu ev : (0 <= mtu)%Z -> (0 <= mtu_after mtu ev)%Z.
Proof.
  intros H. destruct ev; cbn [mtu_after]; try exact H.
  destruct (Z.ltb_spec m 0); lia.
Qed.

Lemma mtu_nonneg_preserved st ev : (0 <= s_mtu st)%Z -> (0 <= s_mtu (fst (step st ev)))%Z.
Proof. intros H. rewrite step_mtu. apply mtu_after_nonneg. exact H. Qed.

Theorem transport_fields : forall st ev st' os p ep rcv ctr pk mtu,
  step st ev = (st', os) -> In (OData p ep rcv ctr pk mtu) os ->
  exists pr s, nth_error (s_peers st') (N.to_nat p) = Some pr /\ p_sess pr = Some s /\
               ss_ridx s = rcv /\ ss_expired s = false /\ p_ep pr = Some ep /\
               ctr < ss_ctr s /\ mtu = s_mtu st'.
Proof.
  intros st ev st' os p ep rcv ctr pk mtu. unfold step.
  destruct (step_peers (s_tbl st) (mtu_after (s_mtu st) ev) (s_up st) ev 0 (s_peers st)) as [ps o] eqn:Hsp.
  intros H; inversion H; subst; clear H. intros Hin. cbn [s_peers s_mtu].
  destruct (step_peers_out _ _ _ _ _ _ _ _ _ Hsp Hin) as (k & p0 & p0' & o & A & B & C & D).
  destruct (peer_step_data _ _ _ _ _ _ _ _ _ _ _ _ _ _ C D) as (E & F & s & G).
  exists p0', s. subst p. replace (N.to_nat (0 + N.of_nat k)) with k by lia.
  split; [exact B|]. destruct G as (G1 & G2 & G3 & G4 & G5). repeat split; auto.
Qed.

(* ------------------------------------------------------------ well-formedness *)

Definition wire_len (o : out) : N :=
  match o with
  | OInit _ _ => MessageInitiationSize
  | OResp _ _ _ => MessageResponseSize
  | OData _ _ _ _ pk mtu => MessageTransportSize + N.of_nat (length (plaintext pk mtu))
  end.

Definition wf_out (o : out) : Prop :=
  match o with
  | OData _ _ _ _ pk mtu =>
      (length (plaintext pk mtu) - length pk < 16)%nat /\
      (pk = [] -> plaintext pk mtu = []) /\
      MessageKeepaliveSize <= wire_len o
  | _ => True
  end.

Theorem emitted_wellformed : forall st ev o,
  (0 <= s_mtu st)%Z -> In o (snd (step st ev)) -> wf_out o.
Proof.
  intros st ev o Hm Hin. destruct o as [| |p ep rcv ctr pk mtu]; cbn [wf_out]; auto.
  destruct (transport_fields st ev _ _ _ _ _ _ _ _ (surjective_pairing _) Hin)
    as (pr & s & _ & _ & _ & _ & _ & _ & Hmtu).
  assert (H0 : (0 <= mtu)%Z) by (subst mtu; apply mtu_nonneg_preserved; exact Hm).
  split; [|split].
  - destruct (plaintext_shape pk mtu H0) as (n & -> & Hn & _).
    rewrite app_length, repeat_length. lia.
  - intros ->. apply plaintext_nil. exact H0.
  - cbn [wire_len]. change MessageKeepaliveSize with 32. change MessageTransportSize with 32. lia.
Qed.

(* ------------------------------------------------------- announced indices *)

Definition ann (evs : list event) (p r : N) : Prop :=
  exists ep', In (RefHs p r ep') evs \/ In (AnswerHs p r ep') evs.

Lemma ann_app_l a b p r : ann a p r -> ann (a ++ b) p r.
Proof. intros [e [H|H]]; exists e; [left|right]; apply in_or_app; left; exact H. Qed.

Definition ann_inv (pre : list event) (st : state) : Prop :=
  forall k pr s, nth_error (s_peers st) k = Some pr -> p_sess pr = Some s ->
                 ann pre (N.of_nat k) (ss_ridx s).

Lemma step_ann_inv pre st ev : ann_inv pre st -> ann_inv (pre ++ [ev]) (fst (step st ev)).
Proof.
  intros Hinv k pr s. unfold step.
  destruct (step_peers (s_tbl st) (mtu_after (s_mtu st) ev) (s_up st) ev 0 (s_peers st)) as [ps o] eqn:Hsp.
  cbn [fst s_peers]. intros Hn Hs.
  destruct (step_peers_nth _ _ _ _ _ _ _ _ Hsp _ _ Hn) as (p0 & o0 & A & B & _).
  rewrite N.add_0_l in B.
  destruct (peer_step_sess _ _ _ _ _ _ _ _ _ B Hs) as [(s0 & Hs0 & Hr)|(e & He)].
  - rewrite <- Hr. apply ann_app_l. eapply Hinv; eassumption.
  - exists e. destruct He as [He|He]; [left|right]; apply in_or_app; right; left; exact He.
Qed.

Lemma index_announced_gen : forall evs pre st, ann_inv pre st ->
  forall p ep rcv ctr pk mtu, In (OData p ep rcv ctr pk mtu) (concat (outs step st evs)) ->
  ann (pre ++ evs) p rcv.
Proof.
  induction evs as [|ev evs IH]; intros pre st Hinv p ep rcv ctr pk mtu Hin.
  - destruct Hin.
  - rewrite outs_cons in Hin. cbn [concat] in Hin. apply in_app_or in Hin.
    pose proof (step_ann_inv pre st ev Hinv) as Hinv'.
    replace (pre ++ ev :: evs) with ((pre ++ [ev]) ++ evs) by (rewrite <- app_assoc; reflexivity).
    destruct Hin as [Hin|Hin].
    + destruct (transport_fields st ev _ _ _ _ _ _ _ _ (surjective_pairing _) Hin)
        as (pr & s & Hn & Hs & Hr & _).
      apply ann_app_l. specialize (Hinv' _ _ _ Hn Hs).
      rewrite N2Nat.id, Hr in Hinv'. exact Hinv'.
    + eapply IH; eassumption.
Qed.

Theorem index_announced : forall st evs,
  Forall (fun p => p_sess p = None) (s_peers st) ->
  forall p ep rcv ctr pk mtu, In (OData p ep rcv ctr pk mtu) (concat (outs step st evs)) ->
  exists ep', In (RefHs p rcv ep') evs \/ In (AnswerHs p rcv ep') evs.
Proof.
  intros st evs H p ep rcv ctr pk mtu Hin.
  apply (index_announced_gen evs [] st) in Hin; [exact Hin|].
  intros k pr s Hn Hs. apply nth_error_In in Hn. rewrite Forall_forall in H.
  rewrite (H _ Hn) in Hs. discriminate.
Qed.

(* --------------------------------------------------- conservation of packets *)

Definition pkt_eq_dec : forall a b : N * pkt, {a = b} + {a <> b}.
Proof.
  decide equality; try apply N.eq_dec. apply list_eq_dec. apply N.eq_dec.
Defined.

Definition data_of (o : out) : list (N * pkt) :=
  match o with OData p _ _ _ (b :: l) _ => [(p, b :: l)] | _ => [] end.
Definition sent (os : list (list out)) : list (N * pkt) := flat_map data_of (concat os).
Definition routed_ev (tbl : list entry) (ev : event) : list (N * pkt) :=
  match ev with
  | TunBatch pkts | TunBatchFault pkts _ _ =>
      flat_map (fun x => match route tbl x with Some j => [(j, x)] | None => [] end) pkts
  | _ => []
  end.
Definition routed (tbl : list entry) (evs : list event) : list (N * pkt) :=
  flat_map (routed_ev tbl) evs.
Definition clean (st : state) : Prop := Forall (fun p => p_staged p = []) (s_peers st).

Local Notation cnt l x := (count_occ pkt_eq_dec l x).

(* the non-empty packets of a list, tagged with a peer position *)
Definition tag (i : N) (l : list pkt) : list (N * pkt) :=
  flat_map (fun pk => match pk with [] => [] | b :: t => [(i, b :: t)] end) l.

(* everything staged on the peers at positions i, i+1, ... *)
Fixpoint stg (i : N) (ps : list peer) : list (N * pkt) :=
  match ps with
  | [] => []
  | p :: t => tag i (concat (p_staged p)) ++ stg (i + 1) t
  end.

(* the packets of a batch that peer i stages *)
Definition mine (tbl : list entry) (i : N) (ev : event) : list pkt :=
  match ev with
  | TunBatch pkts | TunBatchFault pkts _ _ =>
      filter (fun x => match route tbl x with Some j => j =? i | None => false end) pkts
  | _ => []
  end.

Lemma cnt_cons_le y l x : (cnt l x <= cnt (y :: l) x)%nat.
Proof. cbn [count_occ]. destruct (pkt_eq_dec y x); lia. Qed.

Lemma cnt_cons_mono y l l' x : (cnt l x <= cnt l' x)%nat -> (cnt (y :: l) x <= cnt (y :: l') x)%nat.
Proof. cbn [count_occ]. destruct (pkt_eq_dec y x); lia. Qed.

Lemma tag_app i a b : tag i (a ++ b) = tag i a ++ tag i b.
Proof. apply flat_map_app. Qed.

Lemma tag_in i l x : In x (tag i l) -> fst x = i.
Proof.
  unfold tag. rewrite in_flat_map. intros (pk & _ & H).
  destruct pk; [destruct H|]. destruct H as [<-|[]]. reflexivity.
Qed.

Lemma tag_other i l x : fst x <> i -> cnt (tag i l) x = 0%nat.
Proof. intros H. apply count_occ_not_In. intros Hin. apply tag_in in Hin. contradiction. Qed.

Lemma data_number i ep rcv c mtu l : flat_map data_of (number i ep rcv c mtu l) = tag i l.
Proof.
  revert c. induction l as [|x t IH]; intros c; [reflexivity|].
  cbn [number flat_map]. unfold tag. cbn [flat_map]. fold (tag i t). rewrite IH.
  destruct x; reflexivity.
Qed.

Lemma no_data os : (forall o, In o os -> data_of o = []) -> flat_map data_of os = [].
Proof.
  induction os as [|o os IH]; intros H; [reflexivity|]. cbn [flat_map].
  rewrite (H o (or_introl eq_refl)). apply IH. intros o' Ho'. apply H. right; exact Ho'.
Qed.

Lemma send_staged_count mtu i p p' os x :
  send_staged mtu i p = (p', os) ->
  (cnt (flat_map data_of os) x + cnt (tag i (concat (p_staged p'))) x
   <= cnt (tag i (concat (p_staged p))) x)%nat.
Proof.
  unfold send_staged. destruct (p_staged p) as [|c0 q0] eqn:Hst.
  - intros H; inversion H; subst. rewrite Hst. cbn. lia.
  - destruct (usable p) as [s|].
    + intros H; inversion H; subst; clear H. cbn [p_staged].
      change (cnt (tag i (concat [])) x) with 0%nat.
      destruct (p_ep p) as [e|].
      * rewrite data_number. cbn [concat]. lia.
      * cbn [flat_map count_occ]. lia.
    + intros H. apply initiate_no_data in H. destruct H as (_ & Hs & Ho).
      rewrite Hs, Hst. rewrite no_data; [cbn; lia|].
      intros o Hin. apply Ho in Hin. destruct Hin as [e ->]. reflexivity.
Qed.

Lemma stage_count i q c x :
  (cnt (tag i (concat (stage q c))) x <= cnt (tag i (concat q)) x + cnt (tag i c) x)%nat.
Proof.
  unfold stage. rewrite concat_app, tag_app, count_occ_app. cbn [concat]. rewrite app_nil_r.
  destruct (QueueStagedSize <=? N.of_nat (length q)); [|lia].
  destruct q as [|c1 q]; cbn [tl concat]; [lia|]. rewrite tag_app, count_occ_app. lia.
Qed.

Lemma triv_count i l x :
  (cnt (flat_map data_of []) x + cnt (tag i l) x <= cnt (tag i l) x + cnt (tag i []) x)%nat.
Proof. change (cnt (tag i []) x) with 0%nat. change (cnt (flat_map data_of []) x) with 0%nat. lia. Qed.

Lemma triv_count' i l m x :
  (cnt (flat_map data_of []) x + cnt (tag i l) x <= cnt (tag i l) x + m)%nat.
Proof. change (cnt (flat_map data_of []) x) with 0%nat. lia. Qed.

Lemma flush_count i m x :
  (cnt (flat_map data_of []) x + cnt (tag i (concat [])) x <= m)%nat.
Proof.
  change (cnt (flat_map data_of []) x) with 0%nat.
  change (cnt (tag i (concat [])) x) with 0%nat. lia.
Qed.

Lemma tun_step_count tbl mtu i p pkts p' os x :
  tun_step tbl mtu i p pkts = (p', os) ->
  (cnt (flat_map data_of os) x + cnt (tag i (concat (p_staged p'))) x
   <= cnt (tag i (concat (p_staged p))) x + cnt (tag i (mine tbl i (TunBatch pkts))) x)%nat.
Proof.
  unfold tun_step. cbn [mine].
  match goal with |- context [filter ?f pkts] => destruct (filter f pkts) as [|m0 mt] end.
  - intros H; inversion H; subst. apply triv_count.
  - intros H. apply (send_staged_count _ _ _ _ _ x) in H. cbn [p_staged] in H.
    pose proof (stage_count i (p_staged p) (m0 :: mt) x). lia.
Qed.

Lemma firstn_data_count n os x :
  (cnt (flat_map data_of (firstn n os)) x <= cnt (flat_map data_of os) x)%nat.
Proof.
  revert n. induction os as [|o os IH]; intros [|n]; cbn [firstn flat_map]; try lia.
  - change (cnt [] x) with 0%nat. lia.
  - rewrite !count_occ_app. specialize (IH n). lia.
Qed.

Lemma peer_step_count tbl mtu up i p ev p' os x :
  peer_step tbl mtu up i p ev = (p', os) ->
  (cnt (flat_map data_of os) x + cnt (tag i (concat (p_staged p'))) x
   <= cnt (tag i (concat (p_staged p))) x + cnt (tag i (mine tbl i ev)) x)%nat.
Proof.
  destruct ev as [pkts|pkts fq fk|mm|j ridx e|j ridx e|j e|sj se|rj re|j|j| |]; cbn [peer_step].
  1-10: destruct up; cbn [negb]; [|intros H; inversion H; subst; apply triv_count'].
  11: intros H; inversion H; subst; cbn [p_staged]; apply flush_count.
  11: destruct up; intros H; inversion H; subst; cbn [p_staged]; apply triv_count'.
  8: intros H; inversion H; subst; apply triv_count'.
  7: destruct (sj =? i);
       [intros H; apply (send_staged_count _ _ _ _ _ x) in H; cbn [p_staged] in H; lia
       |intros H; inversion H; subst; cbn [p_staged]; apply triv_count'].
  3-8: cbn [mine].
  - apply tun_step_count.
  - intros H. apply peer_step_fault_inv in H.
    destruct H as (p1 & o1 & Ht & _ & _ & Estg & _ & _ & _ & ->). rewrite Estg.
    apply (tun_step_count _ _ _ _ _ _ _ x) in Ht.
    change (mine tbl i (TunBatchFault pkts fq fk)) with (mine tbl i (TunBatch pkts)).
    pose proof (firstn_data_count (N.to_nat fk) o1 x).
    destruct (fq =? i); lia.
  - intros H; inversion H; subst. cbn. lia.
  - destruct (j =? i).
    + destruct (send_staged mtu i (set_sess p ridx e)) as [p1 o1] eqn:Hs.
      intros H; inversion H; subst; clear H.
      apply (send_staged_count _ _ _ _ _ x) in Hs. cbn [set_sess p_staged] in Hs.
      cbn [flat_map data_of app]. change (cnt (tag i []) x) with 0%nat. lia.
    + intros H; inversion H; subst. cbn. lia.
  - destruct ((j =? i) && p_init_out p).
    + intros H. apply (send_staged_count _ _ _ _ _ x) in H.
      unfold set_sess in H. cbn [p_staged] in H. change (cnt (tag i []) x) with 0%nat.
      destruct (p_staged p) as [|c0 q0]; cbn [p_staged] in H; [|lia].
      change (cnt (tag i (concat [[[]]])) x) with 0%nat in H.
      change (cnt (tag i (concat [])) x) with 0%nat. lia.
    + intros H; inversion H; subst. cbn. lia.
  - match goal with |- context [if ?c then _ else _] => destruct c end;
      intros H; inversion H; subst; cbn [p_staged]; apply triv_count.
  - destruct (j =? i); intros H; inversion H; subst; cbn [p_staged]; apply triv_count.
  - destruct (j =? i); intros H; inversion H; subst; cbn [p_staged]; apply triv_count.
Qed.

Lemma mine_routed_pkts tbl i pkts x :
  (cnt (tag i (mine tbl i (TunBatch pkts))) x <= cnt (routed_ev tbl (TunBatch pkts)) x)%nat.
Proof.
  cbn [mine routed_ev].
  induction pkts as [|a t IH]; cbn [filter flat_map]; [cbn; lia|].
  destruct (route tbl a) as [j|]; [|exact IH].
  destruct (N.eqb_spec j i) as [->|Hj].
  - cbn [tag flat_map app]. fold (tag i). destruct a as [|b a'].
    + cbn [app]. etransitivity; [exact IH|]. apply cnt_cons_le.
    + cbn [app]. apply cnt_cons_mono. exact IH.
  - cbn [app]. etransitivity; [exact IH|]. apply cnt_cons_le.
Qed.

Lemma mine_routed tbl i ev x :
  (cnt (tag i (mine tbl i ev)) x <= if N.eqb (fst x) i then cnt (routed_ev tbl ev) x else 0)%nat.
Proof.
  destruct (N.eqb_spec (fst x) i) as [E|E]; [|rewrite tag_other by exact E; lia].
  destruct ev as [pkts|pkts fq fk| | | | | | | | | |];
    try (cbn [mine tag flat_map count_occ]; lia); apply mine_routed_pkts.
Qed.

Lemma step_peers_count tbl mtu up ev x : forall ps i ps' os,
  step_peers tbl mtu up ev i ps = (ps', os) ->
  (cnt (flat_map data_of os) x + cnt (stg i ps') x
   <= cnt (stg i ps) x + if N.leb i (fst x) then cnt (routed_ev tbl ev) x else 0)%nat.
Proof.
  induction ps as [|p t IH]; intros i ps' os; cbn [step_peers].
  - intros H; inversion H; subst. cbn. lia.
  - destruct (peer_step tbl mtu up i p ev) as [p1 o1] eqn:Hp.
    destruct (step_peers tbl mtu up ev (i + 1) t) as [t1 os1] eqn:Ht.
    intros H; inversion H; subst; clear H.
    apply (peer_step_count _ _ _ _ _ _ _ _ x) in Hp. apply IH in Ht.
    pose proof (mine_routed tbl i ev x) as Hm.
    cbn [stg]. rewrite flat_map_app, !count_occ_app.
    destruct (N.eqb_spec (fst x) i), (N.leb_spec i (fst x)), (N.leb_spec (i + 1) (fst x)); lia.
Qed.

Lemma step_count st ev x :
  (cnt (flat_map data_of (snd (step st ev))) x + cnt (stg 0 (s_peers (fst (step st ev)))) x
   <= cnt (stg 0 (s_peers st)) x + cnt (routed_ev (s_tbl st) ev) x)%nat.
Proof.
  unfold step.
  destruct (step_peers (s_tbl st) (mtu_after (s_mtu st) ev) (s_up st) ev 0 (s_peers st)) as [ps o] eqn:Hsp.
  cbn [fst snd s_peers]. apply (step_peers_count _ _ _ _ x) in Hsp.
  destruct (N.leb_spec 0 (fst x)); lia.
Qed.

Lemma run_count x : forall evs st,
  (cnt (sent (outs step st evs)) x
   <= cnt (stg 0 (s_peers st)) x + cnt (routed (s_tbl st) evs) x)%nat.
Proof.
  induction evs as [|ev evs IH]; intros st.
  - cbn. lia.
  - rewrite outs_cons. unfold sent, routed. cbn [concat flat_map].
    rewrite flat_map_app, !count_occ_app.
    specialize (IH (fst (step st ev))). rewrite step_tbl in IH. unfold sent, routed in IH.
    pose proof (step_count st ev x). lia.
Qed.

Lemma stg_clean ps : Forall (fun p => p_staged p = []) ps -> forall i, stg i ps = [].
Proof.
  induction 1 as [|p t Hp _ IH]; intros i; cbn [stg]; [reflexivity|].
  rewrite Hp, IH. reflexivity.
Qed.

Theorem each_tun_packet_at_most_once : forall st evs x, clean st ->
  (count_occ pkt_eq_dec (sent (outs step st evs)) x
   <= count_occ pkt_eq_dec (routed (s_tbl st) evs) x)%nat.
Proof.
  intros st evs x Hc. pose proof (run_count x evs st) as H.
  rewrite (stg_clean _ Hc) in H. cbn [count_occ] in H. lia.
Qed.

Theorem routed_to_lpm_owner : forall st evs p ep rcv ctr pk mtu, clean st ->
  In (OData p ep rcv ctr pk mtu) (concat (outs step st evs)) ->
  pk = [] \/
  (route (s_tbl st) pk = Some p /\
   (exists batch, (In (TunBatch batch) evs \/ exists q k, In (TunBatchFault batch q k) evs) /\
                  In pk batch) /\
   exists f, classify pk = Some f /\ lpm_spec (s_tbl st) f (be_val (dst_of f pk)) (Some p)).
Proof.
  intros st evs p ep rcv ctr pk mtu Hc Hin.
  destruct pk as [|b l]; [left; reflexivity|right].
  assert (Hs : In (p, b :: l) (sent (outs step st evs))).
  { unfold sent. apply in_flat_map. eexists. split; [exact Hin|]. left. reflexivity. }
  apply (count_occ_In pkt_eq_dec) in Hs.
  pose proof (each_tun_packet_at_most_once st evs (p, b :: l) Hc) as Hle.
  assert (Hr : In (p, b :: l) (routed (s_tbl st) evs)) by (apply (count_occ_In pkt_eq_dec); lia).
  unfold routed in Hr. apply in_flat_map in Hr. destruct Hr as (ev & Hev & Hr).
  assert (Hb : exists pkts, (In (TunBatch pkts) evs \/ exists q k, In (TunBatchFault pkts q k) evs) /\
                           In (p, b :: l) (routed_ev (s_tbl st) (TunBatch pkts))).
  { destruct ev as [pkts|pkts fq fk| | | | | | | | | |]; cbn [routed_ev] in Hr; try (destruct Hr; fail);
      exists pkts; (split; [|exact Hr]); [left; exact Hev|right; exists fq, fk; exact Hev]. }
  clear ev Hev Hr. destruct Hb as (pkts & Hev & Hr). cbn [routed_ev] in Hr.
  apply in_flat_map in Hr. destruct Hr as (y & Hy & Hr).
  destruct (route (s_tbl st) y) as [j|] eqn:Hroute; [|destruct Hr].
  destruct Hr as [Hr|[]]. inversion Hr; subst j y; clear Hr.
  split; [exact Hroute|]. split; [exists pkts; split; assumption|].
  unfold route in Hroute. destruct (classify (b :: l)) as [f|]; [|discriminate].
  exists f. split; [reflexivity|]. rewrite <- Hroute. apply lookup_is_lpm.
Qed.

(* ------------------------------------------------------- device down and up *)

Lemma step_peers_down_batch tbl mtu pkts : forall ps i,
  step_peers tbl mtu false (TunBatch pkts) i ps = (ps, []).
Proof.
  induction ps as [|p t IH]; intros i; cbn [step_peers]; [reflexivity|].
  cbn [peer_step negb]. rewrite IH. reflexivity.
Qed.

Theorem down_drops : forall st pkts, s_up st = false -> step st (TunBatch pkts) = (st, []).
Proof.
  intros [tbl mtu up ps] pkts H. cbn [s_up] in H. subst up. unfold step.
  cbn [s_tbl s_mtu s_up s_peers mtu_after]. rewrite step_peers_down_batch. reflexivity.
Qed.

Lemma step_peers_down_fault tbl mtu pkts q k : forall ps i,
  step_peers tbl mtu false (TunBatchFault pkts q k) i ps = (ps, []).
Proof.
  induction ps as [|p t IH]; intros i; cbn [step_peers]; [reflexivity|].
  cbn [peer_step negb]. rewrite IH. reflexivity.
Qed.

Theorem down_drops_fault : forall st pkts q k,
  s_up st = false -> step st (TunBatchFault pkts q k) = (st, []).
Proof.
  intros [tbl mtu up ps] pkts q k H. cbn [s_up] in H. subst up. unfold step.
  cbn [s_tbl s_mtu s_up s_peers mtu_after]. rewrite step_peers_down_fault. reflexivity.
Qed.

Lemma step_peers_Down tbl mtu up : forall ps i ps' os,
  step_peers tbl mtu up Down i ps = (ps', os) ->
  Forall (fun p => p_sess p = None /\ p_staged p = [] /\ p_init_out p = false) ps' /\ os = [].
Proof.
  induction ps as [|p t IH]; intros i ps' os; cbn [step_peers].
  - intros H; inversion H; subst. split; [constructor|reflexivity].
  - cbn [peer_step].
    destruct (step_peers tbl mtu up Down (i + 1) t) as [t1 os1] eqn:Ht.
    intros H; inversion H; subst; clear H.
    destruct (IH _ _ _ Ht) as [HF ->]. split; [|reflexivity].
    constructor; [|exact HF]. cbn. repeat split; reflexivity.
Qed.

Theorem down_clears : forall st,
  Forall (fun p => p_sess p = None /\ p_staged p = [] /\ p_init_out p = false)
         (s_peers (fst (step st Down))) /\
  snd (step st Down) = [] /\ s_up (fst (step st Down)) = false.
Proof.
  intros st. unfold step.
  destruct (step_peers (s_tbl st) (mtu_after (s_mtu st) Down) (s_up st) Down 0 (s_peers st))
    as [ps o] eqn:Hsp.
  cbn [fst snd s_peers s_up]. destruct (step_peers_Down _ _ _ _ _ _ _ Hsp) as [HF ->].
  repeat split. exact HF.
Qed.

Lemma step_peers_Up tbl mtu up : forall ps i ps' os,
  step_peers tbl mtu up Up i ps = (ps', os) -> os = [].
Proof.
  induction ps as [|p t IH]; intros i ps' os; cbn [step_peers].
  - intros H; inversion H; subst. reflexivity.
  - destruct (peer_step tbl mtu up i p Up) as [p1 o1] eqn:Hp.
    destruct (step_peers tbl mtu up Up (i + 1) t) as [t1 os1] eqn:Ht.
    intros H; inversion H; subst; clear H. rewrite (IH _ _ _ Ht).
    cbn [peer_step] in Hp. destruct up; inversion Hp; subst; reflexivity.
Qed.

Theorem up_silent : forall st, snd (step st Up) = [] /\ s_up (fst (step st Up)) = true.
Proof.
  intros st. unfold step.
  destruct (step_peers (s_tbl st) (mtu_after (s_mtu st) Up) (s_up st) Up 0 (s_peers st))
    as [ps o] eqn:Hsp.
  cbn [fst snd s_up]. split; [|reflexivity]. exact (step_peers_Up _ _ _ _ _ _ _ Hsp).
Qed.

(* ------------------------------------------------------------ bind.Send errors *)

Definition out_peer (m : out) : N :=
  match m with OInit p _ => p | OResp p _ _ => p | OData p _ _ _ _ _ => p end.

Lemma number_out_peer i ep rcv c mtu l :
  Forall (fun x => out_peer x = i) (number i ep rcv c mtu l).
Proof.
  revert c. induction l as [|x t IH]; intros c; cbn [number]; constructor; [reflexivity|apply IH].
Qed.

Lemma send_staged_out_peer mtu i p p' o :
  send_staged mtu i p = (p', o) -> Forall (fun x => out_peer x = i) o.
Proof.
  unfold send_staged. destruct (p_staged p) as [|c0 q0].
  - intros H; inversion H; subst. constructor.
  - destruct (usable p) as [s|].
    + intros H; inversion H; subst; clear H. destruct (p_ep p); [apply number_out_peer|constructor].
    + intros H. apply initiate_no_data in H. destruct H as (_ & _ & H).
      apply Forall_forall. intros x Hx. destruct (H x Hx) as [e ->]. reflexivity.
Qed.

Lemma tun_step_out_peer tbl mtu i p pkts p' o :
  tun_step tbl mtu i p pkts = (p', o) -> Forall (fun x => out_peer x = i) o.
Proof.
  unfold tun_step.
  match goal with |- context [filter ?f pkts] => destruct (filter f pkts) as [|m0 mt] end.
  - intros H; inversion H; subst. constructor.
  - apply send_staged_out_peer.
Qed.

Lemma step_peers_tun_out_peer tbl mtu up pkts : forall ps j ps' os,
  step_peers tbl mtu up (TunBatch pkts) j ps = (ps', os) -> Forall (fun x => j <= out_peer x) os.
Proof.
  induction ps as [|p t IH]; intros j ps' os; cbn [step_peers].
  - intros H; inversion H; subst. constructor.
  - destruct (peer_step tbl mtu up j p (TunBatch pkts)) as [p1 o1] eqn:Hp.
    destruct (step_peers tbl mtu up (TunBatch pkts) (j + 1) t) as [t1 os1] eqn:Ht.
    intros H; inversion H; subst; clear H. apply Forall_app. split.
    + cbn [peer_step] in Hp. destruct up; cbn [negb] in Hp.
      * apply tun_step_out_peer in Hp. eapply Forall_impl; [|exact Hp]. cbv beta. intros a Ha. lia.
      * inversion Hp; subst. constructor.
    + apply IH in Ht. eapply Forall_impl; [|exact Ht]. cbv beta. intros a Ha. lia.
Qed.

Lemma filter_all {A} (f : A -> bool) l : Forall (fun x => f x = true) l -> filter f l = l.
Proof.
  induction 1 as [|x l Hx _ IH]; cbn [filter]; [reflexivity|]. rewrite Hx, IH. reflexivity.
Qed.

Lemma filter_peer_same i o : Forall (fun x => out_peer x = i) o ->
  filter (fun x => out_peer x =? i) o = o.
Proof.
  intros H. apply filter_all. eapply Forall_impl; [|exact H]. cbv beta.
  intros a Ha. apply N.eqb_eq. exact Ha.
Qed.

Lemma filter_peer_other i j o : i <> j -> Forall (fun x => out_peer x = j) o ->
  filter (fun x => out_peer x =? i) o = [].
Proof.
  intros Hij H. apply filter_none. eapply Forall_impl; [|exact H]. cbv beta.
  intros a Ha. apply N.eqb_neq. congruence.
Qed.

Lemma filter_peer_above i j o : i < j -> Forall (fun x => j <= out_peer x) o ->
  filter (fun x => out_peer x =? i) o = [].
Proof.
  intros Hij H. apply filter_none. eapply Forall_impl; [|exact H]. cbv beta.
  intros a Ha. apply N.eqb_neq. lia.
Qed.

Lemma Forall_firstn {A} (P : A -> Prop) n l : Forall P l -> Forall P (firstn n l).
Proof.
  intros H. apply Forall_forall. intros x Hx. apply in_firstn in Hx.
  rewrite Forall_forall in H. apply H. exact Hx.
Qed.

Lemma step_peers_fault tbl mtu up pkts q k : forall ps j ps1 o1 ps2 o2,
  step_peers tbl mtu up (TunBatch pkts) j ps = (ps1, o1) ->
  step_peers tbl mtu up (TunBatchFault pkts q k) j ps = (ps2, o2) ->
  map forget_init ps2 = map forget_init ps1 /\
  forall i, filter (fun x => out_peer x =? i) o2 =
            if i =? q then firstn (N.to_nat k) (filter (fun x => out_peer x =? i) o1)
            else filter (fun x => out_peer x =? i) o1.
Proof.
  induction ps as [|p t IH]; intros j ps1 o1 ps2 o2; cbn [step_peers].
  - intros H1 H2; inversion H1; inversion H2; subst. split; [reflexivity|].
    intros i. cbn [filter]. rewrite firstn_nil. destruct (i =? q); reflexivity.
  - destruct (step_peers tbl mtu up (TunBatch pkts) (j + 1) t) as [t1 os1] eqn:Ht1.
    destruct (step_peers tbl mtu up (TunBatchFault pkts q k) (j + 1) t) as [t2 os2] eqn:Ht2.
    pose proof (step_peers_tun_out_peer _ _ _ _ _ _ _ _ Ht1) as Habove.
    destruct (IH _ _ _ _ _ Ht1 Ht2) as [Hm Hf]. clear IH.
    destruct up.
    + change (peer_step tbl mtu true j p (TunBatch pkts)) with (tun_step tbl mtu j p pkts).
      destruct (peer_step tbl mtu true j p (TunBatchFault pkts q k)) as [p2 o2'] eqn:Hp2.
      apply peer_step_fault_inv in Hp2.
      destruct Hp2 as (p' & o & Hp & _ & _ & _ & _ & Hfi & _ & ->). rewrite Hp.
      pose proof (tun_step_out_peer _ _ _ _ _ _ _ Hp) as Ho.
      intros H1 H2; inversion H1; inversion H2; subst; clear H1 H2.
      split; [cbn [map]; rewrite Hfi, Hm; reflexivity|].
      intros i. rewrite !filter_app. specialize (Hf i).
      destruct (N.eqb_spec i q) as [E|Hiq]; [subst i|].
      * destruct (N.eqb_spec q j) as [E|Hqj]; [subst q|].
        -- rewrite (filter_peer_same j) by (apply Forall_firstn; exact Ho).
           rewrite (filter_peer_same j o) by exact Ho.
           rewrite Hf. rewrite (filter_peer_above j (j + 1) os1) by (try lia; exact Habove).
           rewrite firstn_nil, !app_nil_r. reflexivity.
        -- rewrite (filter_peer_other q j o) by assumption. cbn [app]. exact Hf.
      * destruct (N.eqb_spec q j) as [E|Hqj]; [subst q|].
        -- rewrite (filter_peer_other i j) by (try assumption; apply Forall_firstn; exact Ho).
           rewrite (filter_peer_other i j o) by assumption. cbn [app]. exact Hf.
        -- rewrite Hf. reflexivity.
    + cbn [peer_step negb].
      intros H1 H2; inversion H1; inversion H2; subst; clear H1 H2.
      split; [cbn [map]; rewrite Hm; reflexivity|]. intros i. cbn [app]. exact (Hf i).
Qed.

(* A send error toward peer q: the state evolves as without the error (except
   that an initiation the bind refused is not outstanding), every other peer's
   datagrams are unchanged, and of peer q's datagrams exactly the first k are
   transmitted. *)
Theorem fault_transmits_prefix : forall st pkts q k,
  let '(st1, o1) := step st (TunBatch pkts) in
  let '(st2, o2) := step st (TunBatchFault pkts q k) in
  (s_tbl st2 = s_tbl st1 /\ s_mtu st2 = s_mtu st1 /\ s_up st2 = s_up st1 /\
   map forget_init (s_peers st2) = map forget_init (s_peers st1)) /\
  (forall i, filter (fun x => out_peer x =? i) o2 =
             if i =? q then firstn (N.to_nat k) (filter (fun x => out_peer x =? i) o1)
             else filter (fun x => out_peer x =? i) o1).
Proof.
  intros st pkts q k. unfold step. cbn [mtu_after].
  destruct (step_peers (s_tbl st) (s_mtu st) (s_up st) (TunBatch pkts) 0 (s_peers st))
    as [ps1 o1] eqn:H1.
  destruct (step_peers (s_tbl st) (s_mtu st) (s_up st) (TunBatchFault pkts q k) 0 (s_peers st))
    as [ps2 o2] eqn:H2.
  destruct (step_peers_fault _ _ _ _ _ _ _ _ _ _ _ _ H1 H2) as [Hm Hf].
  cbn [s_tbl s_mtu s_up s_peers]. repeat split; try reflexivity; assumption.
Qed.

(* The refused Send was the handshake initiation: nothing on the wire, and the
   peer has no outstanding initiation. *)
Theorem fault_refused_initiation : forall tbl mtu i p pkts,
  (exists ep, snd (tun_step tbl mtu i p pkts) = [OInit i ep]) ->
  p_init_out (fst (peer_step tbl mtu true i p (TunBatchFault pkts i 0))) = false /\
  snd (peer_step tbl mtu true i p (TunBatchFault pkts i 0)) = [].
Proof.
  intros tbl mtu i p pkts [ep H]. rewrite peer_step_fault_eq.
  destruct (tun_step tbl mtu i p pkts) as [p' o]. cbn [snd] in H. subst o.
  rewrite N.eqb_refl. cbn [fst snd]. split; reflexivity.
Qed.

(* ------------------------------------------------------- replayed initiation *)

Lemma step_peers_replay tbl mtu up rp rep : forall ps i,
  step_peers tbl mtu up (ReplayInit rp rep) i ps = (ps, []).
Proof.
  induction ps as [|p t IH]; intros i; cbn [step_peers]; [reflexivity|].
  cbn [peer_step]. rewrite IH. destruct up; reflexivity.
Qed.

Theorem replayed_initiation_is_dropped : forall st p ep, step st (ReplayInit p ep) = (st, []).
Proof.
  intros st p ep. unfold step. cbn [mtu_after]. rewrite step_peers_replay.
  destruct st; reflexivity.
Qed.

(* ------------------------------------------------------------- UAPI endpoint= *)

(* the UAPI peer section ends with SendStagedPackets toward the new endpoint *)
Theorem set_endpoint_then_flush : forall tbl mtu i p ep,
  peer_step tbl mtu true i p (SetEp i ep) =
  send_staged mtu i {| p_ep := Some ep; p_sess := p_sess p; p_hs_recent := p_hs_recent p;
                       p_init_out := p_init_out p; p_staged := p_staged p |}.
Proof. intros tbl mtu i p ep. cbn [peer_step negb]. rewrite N.eqb_refl. reflexivity. Qed.

Theorem set_endpoint_keeps_table : forall st p ep,
  s_tbl (fst (step st (SetEp p ep))) = s_tbl st /\
  s_mtu (fst (step st (SetEp p ep))) = s_mtu st.
Proof. intros st p ep. split; [apply step_tbl|rewrite step_mtu; reflexivity]. Qed.

(* ------------------------------------------------ racing responses, port-only roaming *)

Lemma send_staged_ep mtu i p p' os : send_staged mtu i p = (p', os) -> p_ep p' = p_ep p.
Proof.
  unfold send_staged. destruct (p_staged p) as [|c0 q0].
  - intros H; inversion H; subst; auto.
  - destruct (usable p) as [s|].
    + intros H; inversion H; subst; auto.
    + unfold initiate. destruct (p_hs_recent p); intros H; inversion H; subst; auto.
Qed.

Lemma peer_step_answer_data tbl mtu up i p j ridx e p' os q ep rcv ctr pk m :
  peer_step tbl mtu up i p (AnswerHs j ridx e) = (p', os) -> In (OData q ep rcv ctr pk m) os ->
  q = j /\ rcv = ridx /\ ep = e.
Proof.
  cbn [peer_step]. destruct up; cbn [negb]; [|intros H; inversion H; subst; intros []].
  destruct (j =? i) eqn:Hj; cbn [andb]; [|intros H; inversion H; subst; intros []].
  destruct (p_init_out p); [|intros H; inversion H; subst; intros []].
  apply N.eqb_eq in Hj. subst j.
  intros H Hin.
  destruct (send_staged_data _ _ _ _ _ _ _ _ _ _ _ H Hin) as (A & _ & _ & s & B1 & B2 & _ & B4 & _).
  destruct (send_staged_sess _ _ _ _ _ _ H B1) as (s0 & C1 & C2).
  apply send_staged_ep in H.
  split; [exact A|].
  unfold set_sess in C1, H; cbn [p_staged p_sess p_ep p_init_out] in C1, H; destruct (p_staged p); cbn [p_staged p_sess p_ep] in C1, H; injection C1 as C1; rewrite <- C1 in C2; cbn in C2; rewrite H in B4; injection B4 as B4; split; congruence.
Qed.

Theorem step_answer_data : forall st j ridx e q ep rcv ctr pk m,
  In (OData q ep rcv ctr pk m) (snd (step st (AnswerHs j ridx e))) -> q = j /\ rcv = ridx /\ ep = e.
Proof.
  intros st j ridx e q ep rcv ctr pk m. unfold step.
  destruct (step_peers (s_tbl st) (mtu_after (s_mtu st) (AnswerHs j ridx e)) (s_up st) (AnswerHs j ridx e) 0 (s_peers st)) as [ps o] eqn:Hsp.
  cbn [snd]. intros Hin.
  destruct (step_peers_out _ _ _ _ _ _ _ _ _ Hsp Hin) as (k & p0 & p0' & o' & A & B & C & D).
  eapply peer_step_answer_data; eauto.
Qed.

(* Two authenticating responses to one initiation, (Sender ra, from ea) and (Sender rb, from eb), reach two
   handshake workers at once; the schedule w decides which one completes the handshake, the other is refused.
   Whatever the schedule, every transport datagram of the step carries the receiver index AND goes to the
   source address of the SAME response: never the index of one with the endpoint of the other. *)
Theorem racing_responses_consistent : forall st p ra ea rb eb w q ep rcv ctr pk m,
  In (OData q ep rcv ctr pk m) (snd (step st (answer_race p ra ea rb eb w))) ->
  q = p /\ ((rcv = ra /\ ep = ea) \/ (rcv = rb /\ ep = eb)).
Proof.
  intros st p ra ea rb eb w q ep rcv ctr pk m. unfold answer_race. destruct w; intros H;
    apply step_answer_data in H; destruct H as (A & B & C); auto.
Qed.

Theorem racing_responses_one_completes : forall st p ra ea rb eb w,
  step st (answer_race p ra ea rb eb w) = step st (AnswerHs p (if w then rb else ra) (if w then eb else ea)).
Proof. intros; destruct w; reflexivity. Qed.

Lemma tun_step_ep tbl mtu i p pkts p' os : tun_step tbl mtu i p pkts = (p', os) -> p_ep p' = p_ep p.
Proof.
  unfold tun_step. destruct (filter _ pkts).
  - intros H; inversion H; subst; auto.
  - intros H. apply send_staged_ep in H. exact H.
Qed.

(* An authenticated packet from another source — in the harness: the same address and another port — moves the
   endpoint of a peer with a usable session, silently; every transport datagram of the next TUN batch for that
   peer goes to the new endpoint. *)
Theorem roam_moves_endpoint : forall tbl mtu i p ep p1 o1,
  peer_step tbl mtu true i p (Roam i ep) = (p1, o1) -> usable p <> None ->
  o1 = [] /\ p_ep p1 = Some ep /\
  forall pkts p2 o2 q ep' rcv ctr pk m,
    peer_step tbl mtu true i p1 (TunBatch pkts) = (p2, o2) -> In (OData q ep' rcv ctr pk m) o2 -> ep' = ep.
Proof.
  intros tbl mtu i p ep p1 o1 H Hu. cbn [peer_step negb] in H. rewrite N.eqb_refl in H. cbn [andb] in H.
  destruct (usable p) as [s|]; [|congruence].
  inversion H; subst; clear H. cbn [p_ep]. repeat split; auto.
  intros pkts p2 o2 q ep' rcv ctr pk m H Hin.
  destruct (peer_step_data _ _ _ _ _ _ _ _ _ _ _ _ _ _ H Hin) as (_ & _ & s' & _ & _ & _ & E & _).
  cbn [peer_step negb] in H. apply tun_step_ep in H. cbn [p_ep] in H. congruence.
Qed.
