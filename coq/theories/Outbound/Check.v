(* Correspondence checker for C01.  Depends on Model and Spec only.
   kind 1 = the device differs from the mirror model (correspondence K)
   kind 2 = the property (Spec.holds_trace / Spec.pad_ok) fails on what the device did. *)
From Coq Require Import Uint63.
From WG Require Import Base.Prelude Base.Ints DataPath.Pack Gen.Constants DataPath.Lpm DataPath.Table Outbound.Model Outbound.Spec.
Local Open Scope N_scope.

(* ---------------------------------------------------------------- raw case data *)

Inductive rawev :=
| RTun (l : list (int * list int))      (* (byte length, packed bytes) *)
| RTunF (l : list (int * list int)) (q k : int)
| RMtu (m : int)
| RRef (p ridx ep : int)
| RAns (p ridx ep : int)
| RAns2 (p ra ea rb eb w : int)     (* two racing responses; w = 0|1: which one completed (oracle: read off the wire) *)
| RRoam (p ep : int)
| RReplayInit (p ep : int)
| RSetEp (p ep : int)
| RShift (p : int)
| RExp (p : int)
| RDown
| RUp.

(* [kind; peer+1; session serial; endpoint; receiver; counter hi32; counter lo32; datagram length; plaintext length] *)
Definition rawobs := (list int * list int)%type.

Inductive case :=
| Scenario (hdr : list int)              (* [mtu; ipv4.HeaderLen; ipv6.HeaderLen; partial 0|1] partial = the last step did
                                            not settle: only the property is judged on what was emitted, not the model *)
           (tbl : list (list int))       (* [family 4|6; prefix length; owner; w0; w1; w2; w3] 32-bit words, v4 in w0 *)
           (peers : list int)            (* configured endpoint id per peer, 0 = none *)
           (evs : list rawev)
           (obs : list (list rawobs))
| PadSweep (mtu : int) (lens : list int) (pads : list int)
| Crashed.                               (* the device panicked in this scenario *)

Definition ni := n_of_int.
Definition nthi (l : list int) (k : nat) : N := ni (nth k l 0%uint63).

Definition dec_entry (l : list int) : entry :=
  let f := if nthi l 0 =? 6 then V6 else V4 in
  {| e_fam := f; e_len := nthi l 1; e_owner := nthi l 2;
     e_bits := match f with
               | V4 => nthi l 3
               | V6 => ((nthi l 3 * 4294967296 + nthi l 4) * 4294967296 + nthi l 5) * 4294967296 + nthi l 6
               end |}.

Definition dec_ev (r : rawev) : event :=
  match r with
  | RTun l => TunBatch (map (fun x => unpackf (fst x) (snd x)) l)
  | RTunF l q k => TunBatchFault (map (fun x => unpackf (fst x) (snd x)) l) (ni q) (ni k)
  | RMtu m => MtuUpdate (Z.of_N (ni m))
  | RRef p r e => RefHs (ni p) (ni r) (ni e)
  | RAns p r e => AnswerHs (ni p) (ni r) (ni e)
  | RAns2 p ra ea rb eb w => answer_race (ni p) (ni ra) (ni ea) (ni rb) (ni eb) (negb (ni w =? 0))
  | RRoam p e => Roam (ni p) (ni e)
  | RReplayInit p e => ReplayInit (ni p) (ni e)
  | RSetEp p e => SetEp (ni p) (ni e)
  | RShift p => ShiftHs (ni p)
  | RExp p => Expire (ni p)
  | RDown => Down
  | RUp => Up
  end.

Definition dec_obs (r : rawobs) : obs :=
  let h := fst r in
  {| o_kind := nthi h 0; o_peer := nthi h 1; o_sess := nthi h 2; o_ep := nthi h 3; o_rcv := nthi h 4;
     o_ctr := nthi h 5 * 4294967296 + nthi h 6; o_len := nthi h 7;
     o_plain := unpackf (nth 8 h 0%uint63) (snd r) |}.

Definition opt_ep (e : N) : option N := if e =? 0 then None else Some e.

Definition init_peer (e : int) : peer :=
  {| p_ep := opt_ep (ni e); p_sess := None; p_hs_recent := false; p_init_out := false; p_staged := [] |}.
Definition init_speer (e : int) : speer :=
  {| sp_ep := opt_ep (ni e); sp_idx := None; sp_key := 0 |}.

(* ---------------------------------------------------------------- model vs observed *)

Definition same (m : out) (o : obs) : bool :=
  match m with
  | OInit p ep => (o_kind o =? MessageInitiationType) && (o_peer o =? p + 1) && (o_ep o =? ep) &&
                  (o_len o =? MessageInitiationSize)
  | OResp p ep rcv => (o_kind o =? MessageResponseType) && (o_peer o =? p + 1) && (o_ep o =? ep) &&
                      (o_rcv o =? rcv) && (o_len o =? MessageResponseSize)
  | OData p ep rcv ctr pk mtu =>
      let pl := plaintext pk mtu in
      (o_kind o =? MessageTransportType) && (o_peer o =? p + 1) && (o_ep o =? ep) && (o_rcv o =? rcv) &&
      (o_ctr o =? ctr) && (o_len o =? MessageTransportSize + N.of_nat (length pl)) && list_eqb (o_plain o) pl
  end.

Fixpoint same_list (m : list out) (o : list obs) : bool :=
  match m, o with
  | [], [] => true
  | x :: m', y :: o' => same x y && same_list m' o'
  | _, _ => false
  end.

Definition out_peer (m : out) : N :=
  match m with OInit p _ => p | OResp p _ _ => p | OData p _ _ _ _ _ => p end.

(* The order of datagrams of different peers is not determined (map iteration
   and one sender goroutine per peer); per peer it is. *)
Definition cmp_step (np : N) (m : list out) (o : list obs) : bool :=
  forallb (fun x => (1 <=? o_peer x) && (o_peer x <=? np)) o &&
  forallb (fun i => same_list (filter (fun x => out_peer x =? i) m) (filter (fun x => o_peer x =? i + 1) o))
          (map N.of_nat (seq 0 (N.to_nat np))).

Fixpoint cmp_steps (np : N) (m : list (list out)) (o : list (list obs)) (i : N) : option N :=
  match m, o with
  | [], [] => None
  | x :: m', y :: o' => if cmp_step np x y then cmp_steps np m' o' (i + 1) else Some i
  | _, _ => Some i
  end.

Definition env_ok (hdr : list int) : bool :=
  (nthi hdr 1 =? ipv4_HeaderLen) && (nthi hdr 2 =? ipv6_HeaderLen).

Fixpoint pad_cmp (mtu : Z) (lens pads : list int) (i : N) (spec : bool) : option N :=
  match lens, pads with
  | l :: lens', p :: pads' =>
      let len := Z.of_N (ni l) in
      let pad := Z.of_N (ni p) in
      if (if spec then pad_ok len mtu pad else (pad_len len mtu =? pad)%Z)
      then pad_cmp mtu lens' pads' (i + 1) spec else Some i
  | [], [] => None
  | _, _ => Some i
  end.

Definition opt_fail (k : N) (o : option N) : list (N * N) :=
  match o with Some i => [(k, i)] | None => [] end.

Definition check_case (c : case) : list (N * N) :=
  match c with
  | Scenario hdr tbl peers evs obs =>
      if negb (env_ok hdr) then [(1, 0)] else
      let t := map dec_entry tbl in
      let es := map dec_ev evs in
      let ob := map (map dec_obs) obs in
      let mtu := Z.of_N (nthi hdr 0) in
      let st0 := {| s_tbl := t; s_mtu := mtu; s_up := true; s_peers := map init_peer peers |} in
      let sp0 := {| sp_mtu := mtu; sp_peers := map init_speer peers; sp_nsess := 0; sp_avail := [] |} in
      (if nthi hdr 3 =? 0 then opt_fail 1 (cmp_steps (N.of_nat (length peers)) (outs step st0 es) ob 0) else []) ++
      opt_fail 2 (holds_trace (effective t) sp0 es ob 0)
  | PadSweep mtu lens pads =>
      let m := Z.of_N (ni mtu) in
      opt_fail 1 (pad_cmp m lens pads 0 false) ++ opt_fail 2 (pad_cmp m lens pads 0 true)
  | Crashed => [(1, 0)]
  end.

Fixpoint check_cases (ks : list case) (idx : N) : list (N * N * N) :=
  match ks with
  | [] => []
  | k :: ks' => map (fun p => (idx, fst p, snd p)) (check_case k) ++ check_cases ks' (idx + 1)
  end.

(* ---------------------------------------------------------------- statistics
   [tun packets; not v4/v6 or short header; no route; routed;
    data datagrams; keepalives; initiations; responses;
    pad: mtu = 0; pad: len > mtu; pad: clamped to mtu; pad: plain round-up] *)
Fixpoint bump (l : list N) (i : nat) : list N :=
  match l, i with
  | [], _ => []
  | x :: t, O => (x + 1) :: t
  | x :: t, S j => x :: bump t j
  end.

Definition pad_branch (len mtu : Z) : nat :=
  if (mtu =? 0)%Z then 8%nat
  else if (mtu <? len)%Z then 9%nat
  else if (mtu <? 16 * ((len + 15) / 16))%Z then 10%nat else 11%nat.

Definition stat_pkt (tbl : list entry) (st : list N) (p : pkt) : list N :=
  let st := bump st 0 in
  match classify p with
  | None => bump st 1
  | Some _ => match route tbl p with None => bump st 2 | Some _ => bump st 3 end
  end.

Definition stat_out (st : list N) (o : out) : list N :=
  match o with
  | OInit _ _ => bump st 6
  | OResp _ _ _ => bump st 7
  | OData _ _ _ _ pk mtu =>
      match pk with
      | [] => bump st 5
      | _ => bump (bump st 4) (pad_branch (Z.of_nat (length pk)) mtu)
      end
  end.

Definition stats_case (st : list N) (c : case) : list N :=
  match c with
  | Scenario hdr tbl peers evs obs =>
      let t := map dec_entry tbl in
      let es := map dec_ev evs in
      let st0 := {| s_tbl := t; s_mtu := Z.of_N (nthi hdr 0); s_up := true; s_peers := map init_peer peers |} in
      let st := fold_left (fun a e => match e with TunBatch l | TunBatchFault l _ _ => fold_left (stat_pkt t) l a | _ => a end) es st in
      fold_left (fun a os => fold_left stat_out os a) (outs step st0 es) st
  | PadSweep mtu lens pads =>
      fold_left (fun a l => bump a (pad_branch (Z.of_N (ni l)) (Z.of_N (ni mtu)))) lens st
  | Crashed => st
  end.

Definition stats (ks : list case) : list N :=
  fold_left stats_case ks [0;0;0;0;0;0;0;0;0;0;0;0].
