#!/usr/bin/env python3
# bin/seedkeep.py <seed dir> <Cxx> <name> <pkg> <run regexp> "<needs>" "<detected by / result>"
import json, os, shutil, sys
src, pid, name, pkg, run, needs, result = sys.argv[1:8]
dst = os.path.join("/verif/seeded", pid, name)
os.makedirs(dst, exist_ok=True)
for f in os.listdir(src):
    shutil.copy(os.path.join(src, f), dst)
meta = {
    "property": pid,
    "breaks": open(os.path.join(src, "README.md")).read()[:1500],
    "needs_to_manifest": needs,
    "demonstration": {"place_in": pkg, "run": "go test -vet=off -count=1 -run '%s' ./%s/" % (run, pkg)},
    "confirmed_by": "bin/seedconfirm.sh %s %s %s  -> demo passes without the change, fails with it; existing suite passes with it" % (dst, pkg, run),
    "checks_run": "bin/seedtest.sh %s %s" % (dst, pid),
    "result": result,
}
json.dump(meta, open(os.path.join(dst, "meta.json"), "w"), indent=1)
print("kept", dst)
