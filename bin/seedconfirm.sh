#!/bin/sh
# bin/seedconfirm.sh <seed dir> <package dir rel. to repo> <go test -run regexp>
# Confirms a seeded change in a scratch worktree: demo passes without the change, the change
# applies, builds, passes the existing suite, and the demo fails with it.
d=$(cd "$1" && pwd); pkg=$2; re=$3
export GOFLAGS=-mod=mod GOPROXY=off GOSUMDB=off GOTOOLCHAIN=local
wt=/tmp/wt-confirm-$$
git -C /repo worktree add -q "$wt" HEAD || exit 2
trap 'git -C /repo worktree remove --force "$wt" >/dev/null 2>&1' EXIT
cp "$d"/*_test.go "$wt/$pkg/" 2>/dev/null
cd "$wt"
go test -vet=off -count=1 -run "$re" "./$pkg/" >/tmp/confirm_$$.a 2>&1; a=$?
git apply "$d/patch.diff" || { echo "patch does not apply"; exit 2; }
go build ./... || { echo "does not build"; exit 2; }
go test -vet=off -count=1 -run "$re" "./$pkg/" >/tmp/confirm_$$.b 2>&1; b=$?
rm -f "$wt/$pkg"/seed_*_test.go
for f in "$d"/*_test.go; do rm -f "$wt/$pkg/$(basename "$f")"; done
go test -vet=off -count=1 ./... >/tmp/confirm_$$.c 2>&1; c=$?
echo "demo_without_change_rc=$a demo_with_change_rc=$b existing_suite_with_change_rc=$c"
[ $a -eq 0 ] && [ $b -ne 0 ] && [ $c -eq 0 ] && echo CONFIRMED || { echo NOT-CONFIRMED; tail -5 /tmp/confirm_$$.a /tmp/confirm_$$.b /tmp/confirm_$$.c; }
rm -f /tmp/confirm_$$.*
