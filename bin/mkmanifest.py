#!/usr/bin/env python3
# Assembles MANIFEST.json from checks.d/<Cxx>.json fragments (one per claimed property).
import glob, json, os, sys
ROOT = os.path.dirname(os.path.dirname(os.path.abspath(__file__)))
props = [json.loads(l)["id"] for l in open(os.path.join(ROOT, "properties.jsonl")) if l.strip()]
checks = []
enabled = open(os.path.join(ROOT, "checks.d", "enabled.txt")).read().split()
for f in sorted(glob.glob(os.path.join(ROOT, "checks.d", "C*.json"))):
    c = json.load(open(f))
    pid = c["property_id"]
    if pid not in enabled:
        continue
    c.setdefault("quick_cmd", "bin/check.sh %s quick" % pid)
    c.setdefault("thorough_cmd", "bin/check.sh %s thorough" % pid)
    c.setdefault("evidence_file", "evidence/%s.json" % pid)
    c.setdefault("replay_cmd_template", "bin/check.sh %s --replay {path}" % pid)
    c.setdefault("engine", "coq-correspondence")
    checks.append(c)
claimed = {c["property_id"] for c in checks}
na_reasons = {}
p = os.path.join(ROOT, "checks.d", "not_applicable.json")
if os.path.exists(p):
    na_reasons = json.load(open(p))
na = [{"property_id": i, "reason": na_reasons.get(i, "check not built yet (construction order: DESIGN.md section 10); nothing is claimed for it")}
      for i in props if i not in claimed]
baseline = json.load(open("/root/.vp/BASELINE.json"))["cmd"] if os.path.exists("/root/.vp/BASELINE.json") else ""
hooks_commits = []
hp = os.path.join(ROOT, "checks.d", "hooks.json")
hooks = json.load(open(hp)) if os.path.exists(hp) else {}
m = {
    "version": 1,
    "setup_cmd": "sh bin/setup.sh",
    "hooks": {
        "guard": "verif",
        "enable": "go build -tags verif (harness module /verif/harness with replace golang.zx2c4.com/wireguard => /repo)",
        "baseline_off_cmd": hooks.get("baseline_off_cmd", baseline),
        "source_commits": hooks.get("source_commits", []),
        "add_only": True,
    },
    "engines": [{
        "name": "coq-correspondence",
        "path": "bin/check.sh",
        "serves_properties": sorted(claimed),
        "kind_free_text": "Coq 8.16.1 theorems over hand-written Gallina mirror models (coq/theories), constants regenerated from /repo on every run, "
                          "and a correspondence check that evaluates the model and the specification inside Coq (vm_compute) on the inputs the real code ran (Go harness, build tag verif)",
    }],
    "checks": checks,
    "not_applicable": na,
    "notes": "See DESIGN.md. known_findings.txt lists recorded findings; seeded/ holds the breaking changes used to test the checks.",
}
json.dump(m, open(os.path.join(ROOT, "MANIFEST.json"), "w"), indent=1)
print("MANIFEST.json: %d checks, %d not_applicable" % (len(checks), len(na)))
