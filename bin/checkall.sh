#!/bin/sh
# Runs every registered quick check sequentially and prints a one-line summary per property.
cd "$(dirname "$0")/.."
tier=${1:-quick}
for p in $(cat checks.d/enabled.txt); do

  s=$(date +%s)
  out=$(timeout 3600 bin/check.sh "$p" "$tier" 2>out/last_$p.err)
  rc=$?
  e=$(date +%s)
  echo "$p rc=$rc $((e-s))s $(echo "$out" | grep -E 'VIOLATION|KNOWN-FINDING' | tr '\n' '|')"
done
