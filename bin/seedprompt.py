#!/usr/bin/env python3
# Prints the prompt given to an independent sub-agent that is asked for a property-breaking change.
# The agent gets ONLY the property text and its own scratch worktree; nothing from /verif.
import json, sys
pid = sys.argv[1]
for l in open('/verif/properties.jsonl'):
    p = json.loads(l)
    if p['id'] == pid:
        break
print(f"""You are an experienced Go engineer acting as a red team. Target: the WireGuard userspace implementation wireguard-go. Your job is to produce realistic code changes that BREAK one stated behavioural property while still compiling and passing the project's existing test suite, each with a demonstration. You work only in your own scratch git worktree. The directory /verif is OFF LIMITS: do not read, list or search anything under /verif (the point is that your work is independent of it). Do not modify /repo itself. No network is available.

Set up:  export GOFLAGS=-mod=mod GOPROXY=off GOSUMDB=off GOTOOLCHAIN=local ;  git -C /repo worktree add /tmp/seed-{pid} HEAD ;  work in /tmp/seed-{pid}. (Files named verif_*.go carry a build tag and are inert in normal builds: ignore them, do not edit them.)
Existing test suite (must still pass with your change, unedited):  cd /tmp/seed-{pid} && go test -vet=off -count=1 ./...   (it includes a gofmt check over all .go files).

THE PROPERTY ({pid}: {p['title']}):
{p['statement']}
It is meant to hold {p['quantifier']['text']}.

Produce TWO different changes (different mechanisms, ideally in different functions). Each change must:
 - be a plausible edit a developer could make (a refactor slip, an off-by-one, a wrong comparison, a reordered step, a dropped or misplaced check, a missed update at one of two cooperating sites) in the non-test source of wireguard-go; small (a few lines);
 - compile, and pass the existing test suite above;
 - genuinely violate the property as stated (say which clause);
 - need something SPECIFIC to manifest — a particular interleaving, a fault at a particular point, a multi-step sequence of operations, an unusual input or boundary value, or two cooperating sites that each look fine alone — NOT something ordinary use would expose at once;
 - come with a demonstration: a Go test file (or small program) that FAILS with the change applied and PASSES on the unchanged code. Put it in the relevant package directory of the worktree while you develop it (it may use unexported identifiers), run it both ways, and record the exact command.

Deliver into /tmp/seedout/{pid}/a/ and /tmp/seedout/{pid}/b/ (create them): 
 - patch.diff  : `git diff` of the source change only (no test files), applicable with `git apply` at the repo root;
 - the demonstration file(s) and a line `RUN:` in README.md giving the package-relative location where the file must be placed and the exact `go test -run ...` command;
 - README.md : what the change is, which clause of the property it breaks, what it needs in order to manifest, and the observed output of the demonstration with and without the change.
When done: `git -C /repo worktree remove --force /tmp/seed-{pid}`. Your final message: a 10-line summary of the two changes.""")
