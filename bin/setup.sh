#!/bin/sh
# Run once after a fresh restore, offline: build harness + full Coq development, audit.
set -e
cd "$(dirname "$0")/.."
export GOFLAGS=-mod=mod GOPROXY=off GOSUMDB=off GOTOOLCHAIN=local
mkdir -p out/bin evidence
python3 - <<'PY'
import sys
sys.path.insert(0, "bin/lib")
import vlib
vlib.gen_constants()
cmd, dt = vlib.coq_make(None, timeout=7200)
print("coq build ok in %.0fs" % dt)
import glob, os
for d in sorted(glob.glob("harness/cmd/*")):
    vlib.build_go(os.path.basename(d))
print("harness built")
PY
sh bin/audit.sh
