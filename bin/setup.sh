#!/bin/sh
# Run once after a fresh restore, offline: build harness + full Coq development, audit.
set -e
cd "$(dirname "$0")/.."
export GOFLAGS=-mod=mod GOPROXY=off GOSUMDB=off GOTOOLCHAIN=local
mkdir -p out/bin evidence
python3 - <<'PY'
import sys
sys.path.insert(0, "bin/lib")
import vlib
import glob, os, re
vlib.gen_constants()
enabled = open("checks.d/enabled.txt").read().split()
targets = set()
for pid in enabled:
    targets.add("theories/Props/%s.vo" % pid)
    targets.update(re.findall(r'theories/[A-Za-z0-9_/]+\.vo', open("props/%s.py" % pid).read()))
try:
    cmd, dt = vlib.coq_make(sorted(targets), timeout=7200)
    print("coq build ok in %.0fs (%d targets)" % (dt, len(targets)))
except vlib.CheckError as e:
    # one broken theory must not take every check down: build the rest (make -k); the check that
    # needs the broken file reports it as a broken proof obligation when it runs
    print("WARNING: %s; continuing with make -k" % e.obligation)
    vlib.coq_project()
    vlib.sh(["timeout", "7200", "make", "-k", "-j%d" % vlib.NPROC] + sorted(targets), cwd=vlib.COQ)
for pid in enabled:
    for c in set(re.findall(r'build_go\(\s*"(\w+)"', open("props/%s.py" % pid).read())) | {pid.lower()}:
        if os.path.isdir("harness/cmd/" + c):
            vlib.build_go(c)
print("harness built")
PY
sh bin/audit.sh || echo "WARNING: audit failed (each check audits the theory files it depends on and reports it)"
