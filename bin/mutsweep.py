#!/usr/bin/env python3
"""bin/mutsweep.py [-n N] [-seed S] [-workers W] [-files f1,f2,...]

Self-test of the checks by mechanical mutants (complements the hand-made seeded changes):
one-token edits of the non-test source of /repo (comparison flipped, && <-> ||, continue -> break,
a bare call statement dropped, +1/-1 dropped, true <-> false).  Each mutant is applied in a scratch
worktree (never in /repo); mutants that do not compile or that the project's own test suite
rejects are discarded; the rest is run against the quick checks of the properties anchored in that
file (VERIF_REPO=<worktree>).  Result lines go to out/mutsweep/results.jsonl:
  {"file","line","op","before","after","suite":"pass|fail|nobuild","checks":{"Cxx":rc,...}}
A mutant that survives the suite AND every check is either equivalent (no property broken) or a
gap; those are listed by `bin/mutsweep.py -report` for triage.  Nothing here decides a property.
"""
import hashlib, json, os, random, re, subprocess, sys, threading, time

ROOT = os.path.dirname(os.path.dirname(os.path.abspath(__file__)))
OUT = os.path.join(ROOT, "out", "mutsweep")
GOENV = dict(os.environ, GOFLAGS="-mod=mod", GOPROXY="off", GOSUMDB="off", GOTOOLCHAIN="local")

FILES = {
    "replay/replay.go": ["C05"],
    "ratelimiter/ratelimiter.go": ["C19"],
    "tai64n/tai64n.go": ["C06", "C11"],
    "device/allowedips.go": ["C08", "C09", "C02"],
    "device/cookie.go": ["C10", "C06", "C03"],
    "device/noise-protocol.go": ["C03", "C06", "C07", "C11"],
    "device/noise-helpers.go": ["C03"],
    "device/noise-types.go": ["C03", "C15", "C09"],
    "device/send.go": ["C04", "C07", "C12", "C14", "C20"],
    "device/receive.go": ["C02", "C05", "C11", "C12", "C20"],
    "device/timers.go": ["C14", "C07"],
    "device/peer.go": ["C15", "C13", "C20", "C01"],
    "device/device.go": ["C13", "C15", "C10"],
    "device/uapi.go": ["C09", "C15"],
    "device/keypair.go": ["C07", "C04"],
    "device/indextable.go": ["C15", "C11", "C07"],
    "device/pools.go": ["C20"],
    "device/channels.go": ["C12", "C20", "C13"],
    "device/constants.go": ["C07", "C14", "C06"],
    "conn/bind_std.go": ["C18", "C01"],
    "conn/gso_linux.go": ["C18"],
    "conn/sticky_linux.go": ["C18", "C01"],
    "tun/offload_linux.go": ["C16", "C17"],
    "tun/checksum.go": ["C16", "C17"],
    "tun/tun_linux.go": ["C17", "C16"],
}

OPS = [
    ("lt-le", r" < ", " <= "), ("le-lt", r" <= ", " < "), ("gt-ge", r" > ", " >= "), ("ge-gt", r" >= ", " > "),
    ("eq-ne", r" == ", " != "), ("ne-eq", r" != ", " == "), ("and-or", r" && ", " || "), ("or-and", r" \|\| ", " && "),
    ("continue-break", r"\bcontinue\b", "break"), ("plus1", r" \+ 1\b", ""), ("minus1", r" - 1\b", ""),
    ("true-false", r"\btrue\b", "false"), ("false-true", r"\bfalse\b", "true"),
]
CALL = re.compile(r"^\s*[A-Za-z_][\w\.\[\]]*\([^()]*(\([^()]*\))?[^()]*\)\s*$")


def sh(cmd, cwd=None, timeout=None, env=None):
    try:
        p = subprocess.run(cmd, cwd=cwd, env=env or GOENV, timeout=timeout, stdout=subprocess.PIPE, stderr=subprocess.STDOUT,
                           text=True, errors="replace")
        return p.returncode, p.stdout
    except subprocess.TimeoutExpired:
        return 124, "timeout"


def candidates(repo, files):
    res = []
    for f in files:
        lines = open(os.path.join(repo, f)).read().split("\n")
        in_block_comment = False
        for i, l in enumerate(lines):
            s = l.strip()
            if in_block_comment:
                if "*/" in s:
                    in_block_comment = False
                continue
            if s.startswith("/*"):
                in_block_comment = "*/" not in s
                continue
            if not s or s.startswith("//") or s.startswith("import") or s.startswith("package"):
                continue
            code = l.split("//")[0]
            for name, pat, rep in OPS:
                m = re.search(pat, code)
                if m:
                    new = code[:m.start()] + rep + code[m.end():] + l[len(code):]
                    res.append((f, i, name, l, new))
            if CALL.match(code) and not s.startswith(("defer", "go ", "return", "panic", "if", "for", "switch", "case", "func")):
                res.append((f, i, "drop-call", l, re.match(r"^\s*", l).group(0) + "_ = 0 // dropped: " + s.replace("//", "")))
    return res


def worker(k, repo_head, todo, lock, outf):
    wt = "/tmp/mutwt-%d" % k
    sh(["git", "-C", "/repo", "worktree", "remove", "--force", wt])
    sh(["git", "-C", "/repo", "worktree", "add", "-q", wt, repo_head], timeout=120)
    try:
        while True:
            with lock:
                if not todo:
                    return
                f, i, name, old, new = todo.pop()
            sh(["git", "-C", wt, "checkout", "-q", "--", "."])
            p = os.path.join(wt, f)
            lines = open(p).read().split("\n")
            if lines[i] != old:
                continue
            lines[i] = new
            open(p, "w").write("\n".join(lines))
            rec = {"file": f, "line": i + 1, "op": name, "before": old.strip(), "after": new.strip()}
            rc, o = sh(["go", "build", "./..."], cwd=wt, timeout=300)
            if rc != 0:
                rec["suite"] = "nobuild"
            else:
                rc, o = sh(["go", "test", "-vet=off", "-count=1", "-timeout", "3m", "./..."], cwd=wt, timeout=400)
                rec["suite"] = "pass" if rc == 0 else "fail"
            if rec["suite"] == "pass":
                rec["checks"] = {}
                for c in FILES[f]:
                    t0 = time.time()
                    rc, o = sh([os.path.join(ROOT, "bin", "check.sh"), c, "quick"], cwd=ROOT, timeout=1500,
                               env=dict(GOENV, VERIF_REPO=wt))
                    lines_v = [x for x in o.split("\n") if x.startswith("VIOLATION")]
                    rec["checks"][c] = {"rc": rc, "s": round(time.time() - t0), "nf": any("no-failing-input-found" in x for x in lines_v),
                                        "n": len(lines_v)}
                    if rc != 0:
                        break      # one check reporting it is enough
            with lock:
                outf.write(json.dumps(rec) + "\n")
                outf.flush()
    finally:
        sh(["git", "-C", "/repo", "worktree", "remove", "--force", wt])
        tag = hashlib.sha1(os.path.realpath(wt).encode()).hexdigest()[:8]
        sh(["rm", "-rf", os.path.join(ROOT, "out", "alt-" + tag)])


def report():
    rows = [json.loads(l) for l in open(os.path.join(OUT, "results.jsonl"))]
    tot = len(rows)
    passed = [r for r in rows if r["suite"] == "pass"]
    caught = [r for r in passed if any(v["rc"] != 0 for v in r["checks"].values())]
    surv = [r for r in passed if not any(v["rc"] != 0 for v in r["checks"].values())]
    print("mutants tried %d; rejected by build %d, by the project's suite %d; passed the suite %d; reported by a quick check %d; survived %d"
          % (tot, sum(r["suite"] == "nobuild" for r in rows), sum(r["suite"] == "fail" for r in rows), len(passed), len(caught), len(surv)))
    for r in surv:
        print("SURVIVED %s:%d [%s] %s  ->  %s   (checks %s)" % (r["file"], r["line"], r["op"], r["before"][:90], r["after"][:90],
                                                                 ",".join(r["checks"])))


def main():
    a = sys.argv[1:]
    if "-report" in a:
        return report()
    n = int(a[a.index("-n") + 1]) if "-n" in a else 200
    seed = int(a[a.index("-seed") + 1]) if "-seed" in a else 1
    workers = int(a[a.index("-workers") + 1]) if "-workers" in a else 2
    files = a[a.index("-files") + 1].split(",") if "-files" in a else list(FILES)
    os.makedirs(OUT, exist_ok=True)
    head = subprocess.check_output(["git", "-C", "/repo", "rev-parse", "HEAD"], text=True).strip()
    cands = candidates("/repo", files)
    random.Random(seed).shuffle(cands)
    done = set()
    rp = os.path.join(OUT, "results.jsonl")
    if os.path.exists(rp):
        for l in open(rp):
            r = json.loads(l)
            done.add((r["file"], r["line"], r["op"]))
    todo = [c for c in cands if (c[0], c[1] + 1, c[2]) not in done][:n]
    print("candidates %d, running %d with %d workers" % (len(cands), len(todo), workers), flush=True)
    lock = threading.Lock()
    with open(rp, "a") as outf:
        ts = [threading.Thread(target=worker, args=(k, head, todo, lock, outf)) for k in range(workers)]
        for t in ts:
            t.start()
        for t in ts:
            t.join()
    report()


if __name__ == "__main__":
    main()
