#!/usr/bin/env python3
# Single entry point:  bin/check.sh <Cxx> quick|thorough   |   bin/check.sh <Cxx> --replay <file>
import importlib.util, os, sys
HERE = os.path.dirname(os.path.abspath(__file__))
sys.path.insert(0, os.path.join(HERE, "lib"))
import vlib


def main():
    if len(sys.argv) < 3:
        print("usage: check.sh <Cxx> quick|thorough|--replay <file>", file=sys.stderr)
        return 2
    pid = sys.argv[1]
    spec = importlib.util.spec_from_file_location("prop_" + pid, os.path.join(vlib.ROOT, "props", pid + ".py"))
    mod = importlib.util.module_from_spec(spec)
    spec.loader.exec_module(mod)
    os.chdir(vlib.ROOT)
    if sys.argv[2] == "--replay":
        return mod.replay(sys.argv[3])
    tier = sys.argv[2]
    os.environ["VERIF_TIER"] = tier
    return mod.check(tier, vlib.seed_from_env())


if __name__ == "__main__":
    sys.exit(main())
