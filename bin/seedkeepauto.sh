#!/bin/sh
# bin/seedkeepauto.sh <seed dir> <Cxx> <name> "<needs>" "<result>"  — seedkeep.py with package and test names detected like seedproc.sh
d=$(cd "$1" && pwd)
tf=$(ls "$d"/*_test.go 2>/dev/null | head -1)
pkg=$(grep -m1 '^package ' "$tf" | awk '{print $2}' | sed 's/_test$//')
re=$(grep -ho '^func Test[A-Za-z0-9_]*' "$d"/*_test.go | sed 's/func //' | tr '\n' '|' | sed 's/|$//')
exec python3 /verif/bin/seedkeep.py "$d" "$2" "$3" "$pkg" "^($re)\$" "$4" "$5"
