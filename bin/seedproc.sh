#!/bin/sh
# bin/seedproc.sh <seed dir> <Cxx> [<more checks>]  — confirm a seed (auto-detect package and test names) and run checks against it.
d=$(cd "$1" && pwd); shift
tf=$(ls "$d"/*_test.go 2>/dev/null | head -1)
[ -z "$tf" ] && { echo "$d: no test file"; exit 2; }
pkg=$(grep -m1 '^package ' "$tf" | awk '{print $2}' | sed 's/_test$//')
case "$pkg" in main) pkg=. ;; esac
re=$(grep -ho '^func Test[A-Za-z0-9_]*' "$d"/*_test.go | sed 's/func //' | tr '\n' '|' | sed 's/|$//')
c=$(/verif/bin/seedconfirm.sh "$d" "$pkg" "^($re)\$" | tail -1)
echo "== $d pkg=$pkg tests=$re : $c"
[ "$c" = CONFIRMED ] || exit 1
for p in "$@"; do /verif/bin/seedtest.sh "$d" "$p" | cut -c1-220; done
