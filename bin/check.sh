#!/bin/sh
# bin/check.sh <Cxx> quick|thorough | --replay <file>
cd "$(dirname "$0")/.." || exit 2
exec python3 bin/check.py "$@"
