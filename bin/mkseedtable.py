#!/usr/bin/env python3
# Writes seeded/README.md: which check catches which seeded change (from seeded/*/*/meta.json).
import glob, json, os
ROOT = os.path.dirname(os.path.dirname(os.path.abspath(__file__)))
rows = []
for f in sorted(glob.glob(os.path.join(ROOT, "seeded", "*", "*", "meta.json"))):
    m = json.load(open(f))
    d = os.path.relpath(os.path.dirname(f), ROOT)
    first = m["breaks"].strip().split("\n")
    title = next((l.strip("# ").strip() for l in first if l.strip()), "")
    rows.append((d, m["property"], title[:140], m["needs_to_manifest"], m["result"]))
with open(os.path.join(ROOT, "seeded", "README.md"), "w") as out:
    out.write("# Seeded breaking changes\n\nEach directory holds `patch.diff` (never applied to /repo), the demonstration test written by an independent\n"
              "sub-agent that saw only the property text, and `meta.json`.  Every change compiles, passes the existing suite, and its\n"
              "demonstration fails with the change and passes without it (`bin/seedconfirm.sh`).  `bin/seedtest.sh <dir> <Cxx>` runs a check against it\nin a scratch worktree.\n\n"
              "| seed | property | needs, in order to manifest | result |\n|---|---|---|---|\n")
    for d, p, t, n, r in rows:
        out.write("| `%s` | %s | %s | %s |\n" % (d, p, n.replace("|", "/"), r.replace("|", "/")))
print(len(rows), "seeds")
