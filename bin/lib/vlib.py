# Common machinery for every property check (DESIGN.md section 4).
#
#   build_go(cmd)          go build -tags verif of harness/cmd/<cmd> against /repo's working tree
#   gen_constants()        translator G: regenerate coq/theories/Gen/Constants.v from /repo
#   coq_make(targets)      full .vo build of the needed theories (never -vos)
#   props_obligations(id)  recompile Props/<id>.v, list theorems and Print Assumptions results
#   run_case_files(files)  evaluate generated case files with coqc (vm_compute), in parallel
#   Evidence / violation / known findings helpers
import fcntl, hashlib, json, os, re, shutil, subprocess, sys, time
from concurrent.futures import ThreadPoolExecutor

ROOT = os.path.dirname(os.path.dirname(os.path.dirname(os.path.abspath(__file__))))
REPO = os.path.realpath(os.environ.get("VERIF_REPO", "/repo"))
# Alternate-repo mode (VERIF_REPO=<scratch worktree>): used to try the checks against a modified
# tree without touching /repo.  Everything the run writes (harness copy, coq copy with its own
# Gen/Constants.v, case files, evidence) lives under out/alt-<tag>/.
ALT = REPO != "/repo"
if ALT:
    _tag = hashlib.sha1(REPO.encode()).hexdigest()[:8]
    OUT = os.path.join(ROOT, "out", "alt-" + _tag)
    COQ = os.path.join(OUT, "coq")
    HARNESS = os.path.join(OUT, "harness")
    EVIDENCE = os.path.join(OUT, "evidence")
    os.makedirs(OUT, exist_ok=True)
    # copy the coq tree under the main tree's coq lock: a check running in /verif at the same time may be
    # rebuilding .vo files, and a half-written copy makes theorem obligations "break" for that one run
    os.makedirs(os.path.join(ROOT, "out"), exist_ok=True)
    with open(os.path.join(ROOT, "out", ".coq.lock"), "w") as _lf:
        fcntl.flock(_lf, fcntl.LOCK_EX)
        subprocess.run(["rsync", "-a", "--delete", "--exclude", ".lia.cache", os.path.join(ROOT, "coq") + "/", COQ + "/"], check=True)
        fcntl.flock(_lf, fcntl.LOCK_UN)
    subprocess.run(["rsync", "-a", "--delete", os.path.join(ROOT, "harness") + "/", HARNESS + "/"], check=True)
    _gm = os.path.join(HARNESS, "go.mod")
    _txt = open(_gm).read().replace("=> /repo", "=> " + REPO)
    open(_gm, "w").write(_txt)
else:
    OUT = os.path.join(ROOT, "out")
    COQ = os.path.join(ROOT, "coq")
    HARNESS = os.path.join(ROOT, "harness")
    EVIDENCE = os.path.join(ROOT, "evidence")
BIN = os.path.join(OUT, "bin")
NPROC = os.cpu_count() or 4

GOENV = dict(os.environ, GOFLAGS="-mod=mod", GOPROXY="off", GOSUMDB="off", GOTOOLCHAIN="local")

TRUSTED_BASE_COMMON = [
    "Coq 8.16.1 kernel and coqc; vm_compute (case files and finite sweeps); no native_compute",
    "axioms: none (Print Assumptions under every property theorem must say 'Closed under the global context')",
    "translator harness/cmd/constants (prints the Go compiler's constant values into Gen/Constants.v)",
    "Go harness (generators, Gallina printer, drivers) and the add-only verif-tag export files in /repo",
    "correspondence is differential testing: function bodies of /repo are modelled by hand, tied only through the cases run",
]


class CheckError(Exception):
    """A broken proof obligation or correspondence (not yet a failing input)."""
    def __init__(self, obligation, detail):
        super().__init__(obligation + ": " + detail[:2000])
        self.obligation = obligation
        self.detail = detail


def log(*a):
    print(*a, file=sys.stderr, flush=True)


def sh(cmd, cwd=None, env=None, timeout=None, check=False):
    p = subprocess.run(cmd, cwd=cwd, env=env, timeout=timeout, stdout=subprocess.PIPE,
                       stderr=subprocess.STDOUT, text=True, errors="replace")
    if check and p.returncode != 0:
        raise RuntimeError("command failed: %s\n%s" % (cmd, p.stdout))
    return p.returncode, p.stdout


class Lock:
    """Serialises go build / make between concurrently running checks."""
    def __init__(self, name="build"):
        os.makedirs(OUT, exist_ok=True)
        self.path = os.path.join(OUT, "." + name + ".lock")
    def __enter__(self):
        self.f = open(self.path, "w")
        fcntl.flock(self.f, fcntl.LOCK_EX)
        return self
    def __exit__(self, *a):
        fcntl.flock(self.f, fcntl.LOCK_UN)
        self.f.close()


_built = {}


def build_go(cmd, race=False):
    """Build harness/cmd/<cmd> with -tags verif against the current /repo tree (once per process)."""
    os.makedirs(BIN, exist_ok=True)
    out = os.path.join(BIN, cmd + ("-race" if race else ""))
    if (cmd, race) in _built:
        return out
    with Lock("go"):
        try:
            shutil.copyfile(os.path.join(REPO, "go.sum"), os.path.join(HARNESS, "go.sum"))
        except OSError:
            pass
        args = ["go", "build", "-tags", "verif"] + (["-race"] if race else []) + ["-o", out, "./cmd/" + cmd]
        rc, o = sh(args, cwd=HARNESS, env=GOENV, timeout=900)
    if rc != 0:
        raise CheckError("K.build." + cmd, "harness does not build against /repo with -tags verif:\n" + o)
    _built[(cmd, race)] = True
    return out


def gen_constants():
    exe = build_go("constants")
    rc, o = sh([exe], timeout=60)
    if rc != 0:
        raise CheckError("G.constants", o)
    path = os.path.join(COQ, "theories", "Gen", "Constants.v")
    with Lock("coq"):
        old = open(path).read() if os.path.exists(path) else None
        if old != o:
            os.makedirs(os.path.dirname(path), exist_ok=True)
            with open(path, "w") as f:
                f.write(o)
            log("constants changed: Gen/Constants.v rewritten")
    return o


def gen_file(cmd, rel, args=None):
    """Translator G (second kind): run harness/cmd/<cmd> on the SOURCE of the tree under test and
    (re)write coq/theories/<rel> with what it prints."""
    exe = build_go(cmd)
    rc, o = sh([exe] + (args or []), timeout=120)
    if rc != 0:
        raise CheckError("G." + cmd, o)
    path = os.path.join(COQ, "theories", rel)
    with Lock("coq"):
        old = open(path).read() if os.path.exists(path) else None
        if old != o:
            os.makedirs(os.path.dirname(path), exist_ok=True)
            with open(path, "w") as f:
                f.write(o)
            log("%s rewritten by translator %s" % (rel, cmd))
    return o


def coq_project():
    """(Re)generate _CoqProject and Makefile from the theories present."""
    files = []
    for d, _, fs in os.walk(os.path.join(COQ, "theories")):
        for f in fs:
            if f.endswith(".v"):
                files.append(os.path.relpath(os.path.join(d, f), COQ))
    files.sort()
    txt = "-Q theories WG\n-arg -w -arg -notation-overridden,-deprecated-hint-without-locality\n" + "\n".join(files) + "\n"
    p = os.path.join(COQ, "_CoqProject")
    if not os.path.exists(p) or open(p).read() != txt or not os.path.exists(os.path.join(COQ, "Makefile")):
        open(p, "w").write(txt)
        sh(["coq_makefile", "-f", "_CoqProject", "-o", "Makefile"], cwd=COQ, check=True)


def coq_make(targets=None, timeout=3000):
    """make the given .vo targets (paths relative to coq/, e.g. theories/Props/C05.vo)."""
    with Lock("coq"):
        coq_project()
        args = ["make", "-j%d" % NPROC] + (targets or [])
        t0 = time.time()
        rc, o = sh(["timeout", str(timeout)] + args, cwd=COQ)
        dt = time.time() - t0
    if rc != 0:
        m = re.search(r'File "\./(theories/[^"]+)", line (\d+)', o)
        where = "%s:%s" % (m.group(1), m.group(2)) if m else "?"
        raise CheckError("T.build(" + where + ")", "coq build failed (a proof obligation no longer checks):\n" + o[-3000:])
    return " ".join(args), dt


def props_obligations(pid):
    """Recompile Props/<pid>.v and return (theorem names, closed count, output)."""
    src = os.path.join(COQ, "theories", "Props", pid + ".v")
    txt = open(src).read()
    names = re.findall(r'^\s*(?:Theorem|Example)\s+(\w+)', txt, re.M)
    nprint = len(re.findall(r'^\s*Print Assumptions', txt, re.M))
    with Lock("coq"):
        rc, o = sh(["timeout", "900", "coqc", "-Q", "theories", "WG", "-w", "-notation-overridden",
                    "theories/Props/%s.v" % pid], cwd=COQ)
    if rc != 0:
        raise CheckError("T.Props." + pid, o[-3000:])
    closed = o.count("Closed under the global context")
    if closed != nprint:
        raise CheckError("T.Props.%s.assumptions" % pid, "Print Assumptions reports axioms:\n" + o[-3000:])
    for bad in ("Admitted", "admit.", "Axiom ", "Parameter ", "Conjecture "):
        if bad in txt:
            raise CheckError("T.Props.%s.audit" % pid, "forbidden token %r" % bad)
    # audit every theory file the property file depends on (transitively, via coqdep's output)
    deps = _vo_deps("theories/Props/%s.vo" % pid)
    pat = re.compile(r'\b(Admitted|admit|Axiom|Axioms|Parameter|Parameters|Conjecture|Admit Obligations|Unset Guard Checking|Unset Positivity Checking|Unset Universe Checking|bypass_check)\b')
    for d in sorted(deps):
        src2 = os.path.join(COQ, d[:-1])  # .vo -> .v
        if not os.path.exists(src2):
            continue
        for i, line in enumerate(open(src2, errors="replace"), 1):
            code = re.sub(r'\(\*.*?\*\)', '', line)
            if pat.search(code) and not code.lstrip().startswith("(*"):
                raise CheckError("T.%s.audit" % pid, "forbidden construct in %s:%d: %s" % (src2, i, line.strip()[:120]))
    return names, closed, o


def _vo_deps(target):
    """Transitive .vo dependencies of a target inside coq/theories, from coq_makefile's .Makefile.d."""
    depfile = os.path.join(COQ, ".Makefile.d")
    graph = {}
    if os.path.exists(depfile):
        for line in open(depfile, errors="replace"):
            if ":" not in line:
                continue
            lhs, rhs = line.split(":", 1)
            outs = [x for x in lhs.split() if x.endswith(".vo")]
            ins = [x for x in rhs.split() if x.endswith(".vo") and x.startswith("theories/")]
            for o_ in outs:
                graph.setdefault(o_, set()).update(ins)
    seen, todo = set(), [target]
    while todo:
        t = todo.pop()
        if t in seen:
            continue
        seen.add(t)
        todo.extend(graph.get(t, ()))
    return seen


def coqchk(pid, timeout=1800):
    """Independent re-check of Props/<pid>.vo and everything it depends on; returns (ok, axioms text)."""
    with Lock("coq"):
        rc, o = sh(["timeout", str(timeout), "coqchk", "-silent", "-o", "-Q", "theories", "WG", "WG.Props." + pid], cwd=COQ)
    m = re.search(r'\* Axioms:\s*(.*?)(?:\n\s*\*|\Z)', o, re.S)
    ax = re.sub(r'\s+', ' ', m.group(1)).strip() if m else o[-500:]
    return rc == 0, ax


def run_case_files(files, timeout=1800):
    """coqc each generated case file; returns {file: output}."""
    def one(f):
        d = os.path.dirname(f)
        rc, o = sh(["timeout", str(timeout), "coqc", "-Q", os.path.join(COQ, "theories"), "WG",
                    "-w", "-notation-overridden", os.path.basename(f)], cwd=d)
        return f, rc, o
    res = {}
    with ThreadPoolExecutor(max_workers=NPROC) as ex:
        for f, rc, o in ex.map(one, files):
            if rc != 0:
                raise CheckError("K.casefile", "coqc failed on %s:\n%s" % (f, o[-3000:]))
            res[f] = o
    return res


def coq_value(output, name):
    """Extract the printed value of `Print <name>.` from coqc output as one line of text."""
    m = re.search(r'(?:^|\n)' + re.escape(name) + r'\s*=\s*(.*?)\n\s*:\s', output, re.S)
    if not m:
        raise CheckError("K.parse", "cannot find value %s in coqc output:\n%s" % (name, output[-1500:]))
    return re.sub(r'\s+', ' ', m.group(1)).strip()


def parse_n_tuples(text):
    """'[(1, 2, 3); (4, 5, 6)]' -> [(1,2,3),(4,5,6)];  '[]' -> []   (also %N suffixed)."""
    text = text.replace("%N", "").replace("%Z", "").replace("%nat", "")
    out = []
    for m in re.finditer(r'\(([-\d,\s()]+?)\)(?=\s*[;\]])', text):
        out.append(tuple(int(x) for x in re.findall(r'-?\d+', m.group(1))))
    return out


def parse_n_list(text):
    return [int(x) for x in re.findall(r'-?\d+', text.replace("%N", ""))]


# ---------------------------------------------------------------------------

def seed_from_env(default=1):
    try:
        return int(os.environ.get("VERIF_SEED", default))
    except ValueError:
        return default


def known_findings(pid):
    """Lines 'finding: property=Cxx key=<sig> <text>' of known_findings.txt."""
    res = {}
    p = os.path.join(ROOT, "known_findings.txt")
    if os.path.exists(p):
        for line in open(p):
            m = re.match(r'finding:\s+property=(\w+)\s+key=(\S+)\s+(.*)', line.strip())
            if m and m.group(1) == pid:
                res[m.group(2)] = m.group(3)
    return res


def write_replay(pid, seed, obj, tag=""):
    d = os.path.join(OUT, "replays")
    os.makedirs(d, exist_ok=True)
    path = os.path.join(d, "%s_%s%s.json" % (pid, seed, tag))
    with open(path, "w") as f:
        json.dump(obj, f, indent=1, default=str)
    return os.path.relpath(path, ROOT)


def emit_violation(pid, replay_path, no_input=False):
    print("VIOLATION property=%s replay=%s%s" % (pid, replay_path, " no-failing-input-found" if no_input else ""), flush=True)


def emit_known(pid, text):
    print("KNOWN-FINDING: property=%s %s" % (pid, text), flush=True)


def write_evidence(pid, tier, seed, coverage, wall_s, violations, assumptions, level="proof"):
    os.makedirs(EVIDENCE, exist_ok=True)
    ev = {
        "property_id": pid, "tier": tier, "seed": seed, "level": level,
        "coverage": coverage, "assumptions": assumptions,
        "wall_s": round(wall_s, 2), "violations": violations,
    }
    with open(os.path.join(EVIDENCE, pid + ".json"), "w") as f:
        json.dump(ev, f, indent=1)
    return ev


def distinct_count(items):
    return len({hashlib.sha1(json.dumps(i, sort_keys=True).encode()).hexdigest() for i in items})


def repo_head():
    rc, o = sh(["git", "-C", REPO, "rev-parse", "--short", "HEAD"])
    rc2, d = sh(["git", "-C", REPO, "status", "--porcelain"])
    return o.strip() + ("+dirty" if d.strip() else "")


# ---------------------------------------------------------------------------
# Generic engine.  A property module provides an object with:
#   pid, vo_check (list of .vo needed to evaluate cases), vo_props (Props .vo),
#   k_names (correspondence obligations), technique-specific:
#   generate(seed, tier, mult) -> (files, cases)       cases: list of JSON-able dicts
#   failures(outputs, files, cases) -> list of dict(case=<global idx>, kind=1|2, pos=int, ...)
#   run_cases(cases) -> failures            (re-run implementation + Coq on explicit cases)
#   shrink_candidates(case) -> iterable of smaller cases
#   signature(case, failure) -> str         (for known findings)
#   stats(outputs) -> dict                  (branch histogram etc.)
#   nontrivial(case) -> bool
# ---------------------------------------------------------------------------

def shrink(prop, case, fail_kind, max_rounds=12):
    """Delta debugging, one batch of candidates per round (one Go run + one coqc per round)."""
    cur = case
    for _ in range(max_rounds):
        cands = list(prop.shrink_candidates(cur))[:96]
        if not cands:
            break
        try:
            fs = prop.run_cases(cands)
        except CheckError:
            break
        failing = sorted({f["case"] for f in fs if f["kind"] == fail_kind})
        if not failing:
            break
        cur = cands[failing[0]]
    return cur


def engine(prop, tier, seed):
    t0 = time.time()
    pid = prop.pid
    broken = []          # obligations that no longer check
    checker_cmds = []
    theorems = []
    # 1. translator G + model build
    try:
        gen_constants()
        for g in getattr(prop, "translators", []):
            g()
        cmd, dt = coq_make(prop.vo_check)
        checker_cmds.append(cmd)
    except CheckError as e:
        # without an evaluable model nothing can be compared
        path = write_replay(pid, seed, {"obligation": e.obligation, "detail": e.detail,
                                        "note": "model/checker does not build; no case could be evaluated"})
        emit_violation(pid, path, no_input=True)
        finish(prop, tier, seed, t0, [], {}, [], [e.obligation], [], 1, checker_cmds)
        return 1
    # 2. theorems
    try:
        cmd, dt = coq_make(prop.vo_props)
        checker_cmds.append(cmd)
        theorems, closed, _ = props_obligations(pid)
    except CheckError as e:
        broken.append(e)
        src = os.path.join(COQ, "theories", "Props", pid + ".v")
        theorems = re.findall(r'^\s*(?:Theorem|Example)\s+(\w+)', open(src).read(), re.M)
    # 3. correspondence K (+ spec evaluated on the implementation's behaviour)
    mult = 10 if broken else 1
    try:
        files, cases = prop.generate(seed, tier, mult)
        outputs = run_case_files(files)
        fails = prop.failures(outputs, files, cases)
        stats = prop.stats(outputs)
    except CheckError as e:
        broken.append(e)
        files, cases, outputs, fails, stats = [], [], {}, [], {}
    if fails and not any(f["kind"] == 2 for f in fails) and mult == 1:
        # correspondence broken but property not yet seen to fail: directed search, 10x budget
        try:
            files2, cases2 = prop.generate(seed + 1000003, tier, 10)
            outputs2 = run_case_files(files2)
            fails2 = [f for f in prop.failures(outputs2, files2, cases2) if f["kind"] == 2]
            if fails2:
                base = len(cases)
                for f in fails2:
                    f["case"] += base
                cases = cases + cases2
                fails = fails + fails2
        except CheckError:
            pass
    known = known_findings(pid)
    nviol = 0
    reported = set()
    spec_fails = [f for f in fails if f["kind"] == 2]
    mism = [f for f in fails if f["kind"] == 1]
    has_sig = hasattr(prop, "signature")
    for f in spec_fails[:50]:
        if nviol >= 3:
            break
        case = cases[f["case"]]
        sig0 = prop.signature(case, f) if has_sig else "any"
        if sig0 in reported:
            continue
        if sig0 in known:
            emit_known(pid, known[sig0])
            reported.add(sig0)
            continue
        small = shrink(prop, case, 2) if hasattr(prop, "shrink_candidates") else case
        sig = prop.signature(small, f) if has_sig else "any"
        reported.add(sig0)
        if sig in known:
            if sig not in reported:
                emit_known(pid, known[sig])
                reported.add(sig)
            continue
        reported.add(sig)
        path = write_replay(pid, seed, {"property": pid, "kind": "specification fails on the implementation's behaviour",
                                        "signature": sig, "failure": f, "input": small, "original_input": case,
                                        "broken_obligations": [b.obligation for b in broken]}, tag="_%d" % nviol)
        emit_violation(pid, path)
        nviol += 1
    # A broken theorem/build obligation is always reported (a known finding printed in the same run must not
    # swallow it); a bare model/implementation mismatch is reported unless that very case also failed the
    # specification (and was reported or is a listed finding).
    explained = {f["case"] for f in spec_fails}
    mism_unexplained = [m for m in mism if m["case"] not in explained]
    if nviol == 0 and broken and hasattr(prop, "model_search"):
        # a theorem about the model regenerated from the source no longer checks: look for a history of that
        # model on which the property fails (report only; the search decides nothing)
        try:
            w = prop.model_search(broken)
        except Exception as e:      # the search is best effort
            log("model search failed: %r" % (e,))
            w = None
        if w:
            path = write_replay(pid, seed, {"property": pid, "kind": "property fails on the model regenerated from the source",
                                            "signature": w.get("signature"), "model_history": w,
                                            "broken_obligations": [b.obligation for b in broken],
                                            "details": [b.detail[-1500:] for b in broken]}, tag="_model")
            emit_violation(pid, path)
            nviol += 1
    if nviol == 0 and (broken or mism_unexplained):
        mism = mism_unexplained or mism
        first = cases[mism[0]["case"]] if mism else None
        obl = [b.obligation for b in broken] + (["K.%s.%s" % (pid, prop.k_names[0])] if mism else [])
        path = write_replay(pid, seed, {"property": pid, "kind": "obligation no longer checks; no failing input found",
                                        "obligations": obl, "details": [b.detail[-1500:] for b in broken],
                                        "first_mismatch": mism[0] if mism else None, "input": first}, tag="_nf")
        emit_violation(pid, path, no_input=True)
        nviol += 1
    # the correspondence counts as broken only for mismatches that are not explained by a specification failure
    # of the same case (i.e. by a reported violation or a listed finding); explained ones stay visible in "failures"
    finish(prop, tier, seed, t0, cases, stats, theorems, [b.obligation for b in broken] + (["K"] if mism_unexplained else []),
           fails, nviol, checker_cmds)
    return 1 if nviol else 0


def finish(prop, tier, seed, t0, cases, stats, theorems, broken, fails, nviol, checker_cmds):
    k_names = ["K.%s.%s" % (prop.pid, k) for k in prop.k_names]
    obligations = len(theorems) + len(k_names)
    discharged = obligations
    if any(b.startswith("T.") or b.startswith("G.") for b in broken):
        discharged -= len(theorems)
    if any(b.startswith("K") for b in broken):
        discharged -= len(k_names)
    nontriv = [c for c in cases if prop.nontrivial(c)]
    cov = {
        "obligations": max(obligations, 1), "discharged": max(discharged, 0),
        "obligation_names": theorems + k_names,
        "checker_cmd": " ; ".join(checker_cmds + ["coqc -Q coq/theories WG out/%s/cases_*.v (vm_compute)" % prop.pid]),
        "trusted_base": TRUSTED_BASE_COMMON + getattr(prop, "trusted_extra", []),
        "evaluations": len(cases),
        "distinct_nontrivial": distinct_count(nontriv),
        "rule": prop.rule,
        "samples": [prop.sample(c) for c in cases[:3]] if cases else [],
        "branch_histogram": stats,
        "repo_head": repo_head(),
        "broken_obligations": broken,
        "failures": fails[:10],
    }
    try:
        ptxt = open(os.path.join(COQ, "theories", "Props", prop.pid + ".v")).read()
        cov["statements_not_proved"] = re.findall(r'^\s*Definition\s+(\w+_statement)\b', ptxt, re.M)
        cov["refuted_statements"] = [n for n in theorems if n.endswith("_refuted")]
    except OSError:
        pass
    cov.update(getattr(prop, "extra_coverage", {}))
    if tier == "thorough" and not broken and not os.environ.get("VERIF_NO_COQCHK"):
        try:
            ok, ax = coqchk(prop.pid)
            cov["coqchk"] = {"ok": ok, "axioms": ax}
        except Exception as e:  # never let the re-checker decide the verdict
            cov["coqchk"] = {"ok": None, "error": str(e)[:300]}
    write_evidence(prop.pid, tier, seed, cov, time.time() - t0, nviol, getattr(prop, "assumptions", []))
