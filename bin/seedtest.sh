#!/bin/sh
# bin/seedtest.sh <seed dir with patch.diff> <Cxx> [<Cxx> ...]
# Applies the seeded change to a scratch worktree of /repo (never to /repo itself), runs the
# quick checks of the given properties against it and prints one line per check.
set -e
d=$(cd "$1" && pwd); shift
wt=/tmp/wt-seed-$(basename "$(dirname "$d")")-$(basename "$d")-$$
git -C /repo worktree add -q "$wt" HEAD
tag=$(python3 -c "import hashlib,os,sys; print(hashlib.sha1(os.path.realpath(sys.argv[1]).encode()).hexdigest()[:8])" "$wt")
trap 'git -C /repo worktree remove --force "$wt" >/dev/null 2>&1; [ -n "$KEEP" ] || rm -rf /verif/out/alt-$tag' EXIT
git -C "$wt" apply "$d/patch.diff"
cd /verif
for p in "$@"; do
  set +e
  out=$(VERIF_REPO="$wt" timeout 1800 bin/check.sh "$p" "${TIER:-quick}" 2>/dev/null)
  rc=$?
  set -e
  echo "seed=$d check=$p rc=$rc $(echo "$out" | grep -E 'VIOLATION|KNOWN-FINDING' | head -3 | tr '\n' '|')"
done
