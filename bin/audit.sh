#!/bin/sh
# Fails if the development declares an axiom, leaves a proof open or switches off a kernel check.
cd "$(dirname "$0")/.."
# directories of checks that are not enabled yet may be listed in checks.d/audit_exclude.txt
EXCL=""
if [ -f checks.d/audit_exclude.txt ]; then for x in $(cat checks.d/audit_exclude.txt); do EXCL="$EXCL --exclude-dir=$(basename $x) --exclude=$(basename $x)"; done; fi
if grep -rnE $EXCL '\b(Admitted|admit|Axiom|Axioms|Parameter|Parameters|Conjecture|Hypothesis|Admit Obligations|Unset Guard Checking|Unset Positivity Checking|Unset Universe Checking|bypass_check|type-in-type|impredicative-set)\b' coq/theories --include='*.v' | grep -v '^\S*:\s*[0-9]*:\s*(\*' | grep -vE 'Hypothesis' ; then
  echo "AUDIT FAILED: forbidden construct above" >&2
  exit 1
fi
# Variable/Hypothesis are allowed inside sections only: check each occurrence sits between Section/End
python3 - <<'PY'
import re, sys, glob
bad = 0
import os
excl = open("checks.d/audit_exclude.txt").read().split() if os.path.exists("checks.d/audit_exclude.txt") else []
for f in glob.glob("coq/theories/**/*.v", recursive=True):
    if any(f.startswith(x) for x in excl): continue
    depth = 0
    for i, line in enumerate(open(f), 1):
        if re.match(r'\s*Section\s+\w+', line): depth += 1
        if re.match(r'\s*End\s+\w+\s*\.', line) and depth > 0: depth -= 1
        if re.match(r'\s*(Variable|Variables|Hypothesis|Hypotheses|Context)\b', line) and depth == 0:
            print("%s:%d: %s outside a section" % (f, i, line.strip())); bad = 1
sys.exit(bad)
PY
rc=$?
[ $rc -eq 0 ] && echo "audit ok"
exit $rc
