# C09 — UAPI get/set: mirror model + protocol specification in Coq, correspondence on a real Device.
import json, os
import vlib
from vlib import CheckError

ZERO = "0" * 64
STAT_NAMES = ["set_ok", "set_EINVAL", "set_EPROTO", "set_EADDRINUSE", "set_EIO", "up_down_ops", "blank_line_ends_operation",
              "section_for_own_key", "line_validated_against_placeholder", "prefix_taken_from_other_peer",
              "minus_removal_removed", "minus_removal_no_effect", "update_only_removed_created_peer", "remove_removed_peer",
              "private_key_change_dropped_peer", "replace_peers_dropped_peers", "peer_created",
              "replace_allowed_ips_dropped_prefixes", "roundtrips_compared", "undelivered_gets"]


class Prop:
    pid = "C09"
    vo_check = ["theories/Uapi/Check.vo"]
    vo_props = ["theories/Props/C09.vo"]
    k_names = ["errno+get(Device.IpcSet/IpcGet/IpcGetOperation/IpcHandle/Up/Down == Uapi.Model.step)"]
    rule = ("operation sequences (set texts, Up, Down, gets whose output cannot be delivered: failing writer / IpcHandle "
            "client hanging up, each followed on the same goroutine by an ordinary get) on a real Device over an in-memory bind: fixed scenarios for every "
            "corner pinned in DESIGN.md C09 plus sequences from one PRNG (all keys; valid, boundary and invalid values; "
            "several peers from a small key pool incl. the device's own public key, the zero key; prefixes with host bits "
            "moving between peers; '-' removal; replace_*; remove/update_only in every position; private-key changes onto "
            "peer keys; blank lines, missing '=', unknown and misplaced keys, CRLF; busy ports / failing marks; a fifth "
            "of them drawn for IpcHandle framing, a fifth for ONE IpcHandle connection carrying all operations of the sequence, failing ones included, each status line compared on its own); after EVERY operation errno and the canonicalised get are compared with "
            "model (kind 1) and specification (kind 2) and the get text is replayed on a fresh device (roundtrip); "
            "non-trivial = at least 3 operations, a peer configured and (an error or two peers); distinct by content hash")
    assumptions = ["fewer than 65536 peers (NewPeer's MaxPeers error is not modelled)",
                   "no traffic: handshakes never complete on the in-memory bind, so statistics keys stay 0 and are ignored",
                   "endpoint / prefix TEXT parsing is netip.ParseAddrPort / netip.ParsePrefix (done by the harness and the bind, not in Coq)",
                   "curve25519 public keys are supplied per case by the harness (x/crypto ScalarBaseMult)",
                   "lines of 64 KiB or more are only exercised at 70000 bytes (bufio.Scanner limit boundary not probed)"]
    trusted_extra = ["harness/c09sim: in-memory conn.Bind / tun.Device (Open/SetMark failures are declared per case and given to the model as env)",
                     "harness tokeniser (ScanLines/Cut written out) and get canonicaliser (peers by key, prefixes by family/address/length)"]

    def __init__(self):
        self.dir = os.path.join(vlib.OUT, "C09")
        self.drop_known = True     # while shrinking, a known finding must not stand in for the failure at hand

    def _load(self, d):
        meta = json.load(open(os.path.join(d, "cases.json")))
        files = [os.path.join(d, s["file"]) for s in meta["shards"]]
        return meta, files

    def _run_go(self, args, d):
        exe = vlib.build_go("c09")
        rc, o = vlib.sh([exe] + args, cwd=vlib.ROOT, timeout=900)
        if rc != 0:
            raise CheckError("K.C09.driver", o)
        return self._load(d)

    def generate(self, seed, tier, mult):
        n = (300 if tier == "quick" else 4000) * mult
        shards = 16 if tier == "quick" else 64
        meta, files = self._run_go(["-seed", str(seed), "-n", str(n), "-shards", str(shards), "-out", self.dir,
                                    "-corpus", os.path.join(vlib.ROOT, "corpus", "C09")], self.dir)
        self.shards = meta["shards"]
        return files, meta["cases"]

    @staticmethod
    def _harness_failures(cases):
        res = []
        for i, c in enumerate(cases):
            if c.get("hang"):
                res.append({"case": i, "kind": 2, "pos": 10 * c["hang"]["op"] + 8, "hang": c["hang"]["what"]})
            if c.get("anomaly"):
                res.append({"case": i, "kind": 2, "pos": 7, "anomaly": c["anomaly"][:5]})
        return res

    def _coq_failures(self, shards, files, outputs):
        res = []
        for s, f in zip(shards, files):
            for (idx, kind, pos) in vlib.parse_n_tuples(vlib.coq_value(outputs[f], "bad")):
                res.append({"case": s["first"] + idx, "kind": kind, "pos": pos})
        return res

    def failures(self, outputs, files, cases):
        return self._coq_failures(self.shards, files, outputs) + self._harness_failures(cases)

    def stats(self, outputs):
        tot = [0] * len(STAT_NAMES)
        for o in outputs.values():
            v = vlib.parse_n_list(vlib.coq_value(o, "st"))
            tot = [a + b for a, b in zip(tot, v)]
        return dict(zip(STAT_NAMES, tot))

    def run_cases(self, cases):
        d = os.path.join(self.dir, "rerun")
        os.makedirs(d, exist_ok=True)
        inp = os.path.join(d, "in.json")
        json.dump([{"ops": c["ops"], "transport": c.get("transport", "direct"), "gen": c.get("gen", "replay")} for c in cases],
                  open(inp, "w"))
        meta, files = self._run_go(["-replay", inp, "-out", d], d)
        outs = vlib.run_case_files(files)
        self.last_rerun = meta["cases"]
        fs = self._coq_failures(meta["shards"], files, outs) + self._harness_failures(meta["cases"])
        known = vlib.known_findings("C09")
        for f in fs:
            if f["kind"] == 2:
                f["sig"] = self.signature(meta["cases"][f["case"]], f)
        if self.drop_known:
            fs = [f for f in fs if f.get("sig") not in known]
        return fs

    def shrink_candidates(self, case):
        ops = case["ops"]
        base = {"transport": case.get("transport", "direct"), "gen": case.get("gen", "")}
        # drop whole operations, then single lines of set texts
        for i in range(len(ops)):
            if len(ops) > 1:
                yield dict(base, ops=ops[:i] + ops[i + 1:])
        for i, o in enumerate(ops):
            if o["kind"] != "set":
                continue
            lines = o.get("text", "").split("\n")
            for j in range(len(lines)):
                if len(lines) > 1 and lines[j] != "":
                    t = "\n".join(lines[:j] + lines[j + 1:])
                    yield dict(base, ops=ops[:i] + [{"kind": "set", "text": t}] + ops[i + 1:])

    def signature(self, case, f):
        if "hang" in f:
            return "ipcset-hang-" + f["hang"]
        if "anomaly" in f:
            tok = f["anomaly"][0].split()
            what = tok[1] if len(tok) > 1 and tok[0].startswith("op") and tok[0][2:].isdigit() else tok[0]
            return ("api-" if what.startswith("NoisePrivateKey") else "get-anomaly-") + what.rstrip(":")
        if "obs" not in case:
            # a shrunk candidate carries no observations: run it again and take its own first failure
            fs = [g for g in self.run_cases([case]) if g["kind"] == 2]
            return fs[0]["sig"] if fs else "not-reproduced"
        obs = case["obs"]
        i, what = f["pos"] // 10, f["pos"] % 10
        o = obs[i] if i < len(obs) else None
        if what == 2 and o is not None and o.get("rt") is not None:
            g, r = o["get"], o["rt"]
            if (o["rt_errno"] == 0 and g["priv"] == ZERO and any(p["key"] == ZERO for p in g["peers"])
                    and dict(g, peers=[p for p in g["peers"] if p["key"] != ZERO]) == r):
                return "roundtrip-loses-zero-public-key-peer-of-keyless-device"
            if o["rt_errno"] != 0:
                return "roundtrip-errno%d" % o["rt_errno"]
            return "roundtrip-differs"
        if what == 0:
            op = case["ops"][i] if i < len(case["ops"]) else {"kind": "?"}
            return "errno-differs-from-spec-%s-observed%s" % (op["kind"], o["errno"] if o else "?")
        if what == 1:
            return "get-differs-from-spec"
        return "spec-fails-%d" % what

    def nontrivial(self, c):
        obs = c.get("obs") or []
        peers = max([len(o["get"]["peers"]) for o in obs] + [0])
        err = any(o["errno"] != 0 for o in obs)
        return len(c["ops"]) >= 3 and peers >= 1 and (err or peers >= 2)

    def sample(self, c):
        return {"gen": c.get("gen"), "transport": c.get("transport"),
                "ops": [(o["kind"] if o["kind"] != "set" else o.get("text", "")[:300]) for o in c["ops"][:4]],
                "errnos": [o["errno"] for o in c.get("obs", [])[:8]], "length": len(c["ops"])}


def check(tier, seed):
    return vlib.engine(Prop(), tier, seed)


def replay(path):
    obj = json.load(open(path))
    p = Prop()
    p.drop_known = False
    case = obj.get("input") or obj
    fs = p.run_cases([case])
    r = p.last_rerun[0]
    print(json.dumps({"failures": fs, "errnos": [o["errno"] for o in r.get("obs", [])], "hang": r.get("hang"),
                      "anomaly": r.get("anomaly")}))
    bad = [f for f in fs if f["kind"] == 2]
    if bad:
        sigs = {f["sig"] for f in bad}
        print("signatures: " + ", ".join(sorted(sigs)))
        print("VIOLATION property=C09 replay=%s" % path)
        return 1
    return 0
