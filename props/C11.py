# C11 — endpoint roaming follows only fresh, authenticated packets: Coq theorems on the slice model
# Roaming/Model.v + co-simulation of the real device against the model and the property checker.
import json, os
import vlib
from vlib import CheckError

STAT_NAMES = ["initiation_consumed", "initiation_bad_mac1", "initiation_aead_fails_or_stranger", "initiation_replayed_timestamp",
              "initiation_flood", "response_consumed", "response_rejected", "cookie_reply", "other_datagram",
              "transport_accepted", "transport_replayed_or_out_of_window", "transport_bad_tag",
              "transport_wrong_index_or_dead_session", "batch_with_several_elements", "tun_initiation", "tun_transport",
              "tun_staged_only", "uapi_endpoint", "steps_where_an_endpoint_moved", "confirming_element_released_staged",
              "restart_down_up", "send_counter_over_rekey_limit", "tun_transport_and_rekey_initiation",
              "keypairs_aged_beyond_180s", "transport_under_expired_keypair"]


class Prop:
    pid = "C11"
    vo_check = ["theories/Roaming/Check.vo"]
    vo_props = ["theories/Props/C11.vo"]
    k_names = ["cosim(device datagrams with destinations, endpoint of every peer after every step == Roaming.Model.step)",
               "loopback(real conn.StdNetBind on 127.0.0.1/::1: datagrams of every kind from a stranger socket leave the learnt endpoint and the destination of the next datagrams unchanged, before and after roaming)",
               "concurrent-initiations(pairs of fresh initiations of one peer in one receive batch, 24 peers x 150 rounds quick / 800 thorough: every initiation the device answered is refused when replayed from another address past the flood gap)"]
    rule = ("scenarios from one PRNG against a real device (sim bind/tun, receive batch 1/4/8/16/128, remote side = ref): valid and "
            "invalid initiations, responses, cookie replies, transport messages and unknown datagrams from changing source addresses "
            "(8 addresses incl. same address/other port and IPv6), both handshake roles, a peer without configured endpoint; replays of "
            "consumed initiations and responses, older timestamps, flood, corrupt static/timestamp, stranger; transport: fresh, jumps, "
            "in-window, replayed, behind the window, bad tag, unknown index, index of another session, previous session; batches mixing "
            "peers, sources and validity, with staged packets waiting for the confirming element; UAPI endpoint=; a TUN packet after "
            "most steps shows where the next datagram goes; Device.Down/Up restarts followed by replays of earlier initiations, responses and transport messages from other addresses; crossed handshakes (peer re-initiates, device answer unused, device own initiation forced by VerifSetSendNonce completes) followed by transport under every earlier session from new addresses; one pass over the real StdNetBind on loopback per run; non-trivial = at least one endpoint moved and at least one datagram was "
            "rejected; distinct by plan content")
    assumptions = ["authenticity of each datagram is a construction descriptor (valid MAC1, which static key, AEAD opens, timestamp, "
                   "counter, session, index) produced by the harness's own protocol implementation; freshness (timestamp order, flood gap, "
                   "replay filter, slot liveness) is decided by the model",
                   "index-table lookups (which peer/session a receiver index belongs to) are read from the device (VerifIndexTable) as oracle",
                   "device not under load (C10), no keypair older than 120 s, disableRoaming (mobile quirk) off",
                   "inside one receive batch staged packets released by a confirming element may leave for the source of that element or of a later accepted one (race between receiver and sender goroutines); the final endpoint is the last accepted element's source",
                   "flood gap (20 ms) exercised back-to-back (<6 ms) or after a 1 s shift; scenarios with an ambiguous gap are discarded and counted"]
    trusted_extra = ["harness/cmd/c11 (scenario generator, descriptors, observation through ref, VerifPeer.Endpoint cross-checked with IpcGet endpoint=)",
                     "Replay/Spec.v accept (C05's set specification, proved equal to replay.Filter) as the per-session filter",
                     "Base/Ints.v: primitive Uint63 literals carry times/timestamps/counters in generated case files only"]

    def __init__(self):
        self.dir = os.path.join(vlib.OUT, "C11")

    def _load(self, d):
        meta = json.load(open(os.path.join(d, "cases.json")))
        files = [os.path.join(d, s["file"]) for s in meta["shards"]]
        return meta, files

    def _run_go(self, args):
        exe = vlib.build_go("c11")
        rc, o = vlib.sh([exe] + args, cwd=vlib.ROOT, timeout=3000)
        if rc != 0:
            raise CheckError("K.C11.driver", o[-3000:])
        meta, files = self._load(self.dir)
        self.shards = meta["shards"]
        return files, meta["cases"]

    def generate(self, seed, tier, mult):
        n = (130 if tier == "quick" else 1500) * mult
        shards = 8 if tier == "quick" else 32
        files, cases = self._run_go(["-seed", str(seed), "-n", str(n), "-shards", str(shards), "-out", self.dir,
                                     "-racerounds", "150" if tier == "quick" else "800",
                                     "-corpus", os.path.join(vlib.ROOT, "corpus", "C11")])
        lb = [c["loopback"] for c in cases if c.get("loopback")]
        rc = [c["race"] for c in cases if c.get("race")]
        self.extra_coverage = {"loopback_stdnetbind": lb[0] if lb else None,
                               "concurrent_initiations": rc[0] if rc else None,
                               "discarded_scenarios": sum(1 for c in cases if not c.get("steps") and not c.get("loopback") and not c.get("race")),
                               "retries_slow_or_ambiguous_flood_gap": sum(c.get("slow", 0) for c in cases)}
        return files, cases

    @staticmethod
    def _fails(shards, files, outputs, cases):
        res = []
        for s, f in zip(shards, files):
            for (idx, kind, pos) in vlib.parse_n_tuples(vlib.coq_value(outputs[f], "bad")):
                res.append({"case": s["first"] + idx, "kind": kind, "pos": pos})
        for i, c in enumerate(cases):
            lb = c.get("loopback")
            if lb and lb.get("status") == "violation":
                res.append({"case": i, "kind": 2, "pos": 0, "loopback": lb.get("detail", "")[:400]})
            rc = c.get("race")
            if rc and rc.get("status") == "violation":
                res.append({"case": i, "kind": 2, "pos": 0, "race": rc.get("detail", "")[:400]})
        return res

    def failures(self, outputs, files, cases):
        return self._fails(self.shards, files, outputs, cases)

    def stats(self, outputs):
        tot = [0] * len(STAT_NAMES)
        for o in outputs.values():
            v = vlib.parse_n_list(vlib.coq_value(o, "st"))
            tot = [a + b for a, b in zip(tot, v)]
        return dict(zip(STAT_NAMES, tot))

    def run_cases(self, cases):
        d = os.path.join(self.dir, "rerun")
        os.makedirs(d, exist_ok=True)
        inp = os.path.join(d, "in.json")
        json.dump([{"gen": c.get("gen", ""), "plan": c.get("plan") or [], "batch": c.get("batch", 8), "loopback": c.get("loopback"), "race": c.get("race")} for c in cases], open(inp, "w"))
        exe = vlib.build_go("c11")
        rc, o = vlib.sh([exe, "-replay", inp, "-out", d], cwd=vlib.ROOT, timeout=3000)
        if rc != 0:
            raise CheckError("K.C11.driver", o[-3000:])
        meta, files = self._load(d)
        outs = vlib.run_case_files(files)
        self.last_rerun = meta["cases"]
        return self._fails(meta["shards"], files, outs, meta["cases"])

    def shrink_candidates(self, case):
        plan = case.get("plan") or []
        n = len(plan)
        chunk = n // 2
        while chunk >= 1:
            for i in range(0, n, chunk):
                cand = plan[:i] + plan[i + chunk:]
                if cand and len(cand) < n:
                    yield {"gen": case.get("gen", ""), "plan": cand, "batch": case.get("batch", 8)}
            chunk //= 2

    def signature(self, case, f):
        if case.get("loopback") or f.get("loopback"):
            return "loopback-stdnetbind"
        if case.get("race") or f.get("race"):
            return "consumed-initiation-answered-again(concurrent-initiations)"
        steps = case.get("steps") or []
        pos = f.get("pos", 0)
        if pos >= len(steps):
            pl = [p for p in case.get("plan", []) if p.get("op") not in ("tun", "shifths")]
            p = pl[-1] if pl else {}
            return "%s/%s/%s/%s" % (p.get("op"), p.get("mac1"), p.get("content"), ",".join(e["kind"] for e in p.get("elems") or []))
        s = steps[pos]
        p = s["plan"]
        kinds = ",".join(sorted(x.split("->")[0] for x in (s.get("outs") or [])))
        return "%s/%s/%s/%s=>[%s]%s" % (p.get("op"), p.get("mac1"), p.get("content"), ",".join(e["kind"] for e in p.get("elems") or []),
                                         kinds, "moved" if s.get("moved") else "stayed")

    def nontrivial(self, c):
        if c.get("loopback"):
            return c["loopback"].get("status") == "ok"
        if c.get("race"):
            return c["race"].get("status") == "ok"
        steps = c.get("steps") or []
        return any(s.get("moved") for s in steps) and len(steps) >= 4

    def sample(self, c):
        if c.get("loopback"):
            return {"gen": c["gen"], "loopback": c["loopback"]}
        if c.get("race"):
            return {"gen": c["gen"], "race": c["race"]}
        return {"gen": c.get("gen"), "batch": c.get("batch"),
                "steps": [{"event": s["event"][:200], "observed": s.get("outs"), "endpoints": s.get("eps")} for s in (c.get("steps") or [])[:6]],
                "length": len(c.get("steps") or [])}


def check(tier, seed):
    return vlib.engine(Prop(), tier, seed)


def replay(path):
    obj = json.load(open(path))
    p = Prop()
    case = obj.get("input") or obj
    fs = p.run_cases([case])
    r = p.last_rerun[0]
    print(json.dumps({"failures": fs, "loopback": r.get("loopback"), "race": r.get("race"),
                      "observed": [{"event": s["event"], "outs": s.get("outs"), "endpoints": s.get("eps")} for s in (r.get("steps") or [])]})[:6000])
    if any(f["kind"] == 2 for f in fs):
        print("VIOLATION property=C11 replay=%s" % path)
        return 1
    return 0
