# C19 — handshake rate limiter: per-source token bucket (Coq proofs over all histories and an
# interleaving model of Allow), correspondence on ratelimiter.Ratelimiter under a virtual clock,
# and the concurrent new-address scenario run on the real code.
import json, os
import vlib
from vlib import CheckError

CLAUSE = {1: "envelope", 2: "spaced-refused", 3: "gc-visible", 4: "not-independent", 5: "concurrent",
          15: "concurrent-callers-same-entry-spurious-refusal",
          9: "concurrent-first-messages-envelope", 10: "burst-during-collection-pass-envelope",
          6: "idle-entry-not-forgotten", 7: "call-does-not-return", 8: "idle-entry-not-forgotten", 11: "envelope", 12: "spaced-refused", 14: "not-independent"}
CONC_SIG = "concurrent-new-address-insert-race"


class Prop:
    pid = "C19"
    vo_check = ["theories/Ratelimit/Check.vo", "theories/Gen/RlAst.vo", "theories/Ratelimit/AstGrid.vo"]
    vo_props = ["theories/Props/C19.vo"]
    k_names = ["decisions(ratelimiter.Allow/cleanup under VerifSetClock == Ratelimit.Model.step, with passes, without passes, address alone)",
               "concurrent(k callers of Allow for one new address held at the clock call; observed admissions judged by Spec.envelope_chk)",
               "forced-schedules(collection pass held from the harness at its per-entry clock read: k callers for a new and for a "
               "just-forgotten address released together; bursts fired while the pass is held; envelope judged by Spec.envelope_chk)",
               "liveness(real collector goroutine of Init: table emptied after an idle gap, then first inserts from concurrent callers with "
               "the clock read inside Allow's insert section held for more than one ticker period; every Allow and Close returns under a watchdog)",
               "device(real device under load, cookie exchange done, one address flooding while its neighbours (last byte, byte 8, zone only, IPv4-mapped form) and a distant address send 60 ms apart, then the flood "
               "continues across a UAPI listen_port change and Down/Up, v4 and v6; "
               "processed/refused per message judged by Spec envelope/spaced/independence checkers)"]
    rule = ("arrival histories from one PRNG under a virtual clock: 2-8 addresses (v4, v6, v4-mapped v6, zoned link-local incl. the same "
            "address on two links, extremes) interleaved, every source address turned into the limiter key by the real receive path, "
            "gaps around packetCost (50 ms), maxTokens and the 1 s collection threshold, bursts at a frozen clock, long idles, "
            "collection passes as explicit ops, start times at the int64 extremes, gaps beyond 2^62 ns (int64 wrap of the token "
            "addition, saturation of time.Sub) and clocks going backwards (model comparison only); each history is run with passes, "
            "without passes and with one address alone; non-trivial = valid history with admitted and refused arrivals of at "
            "least two addresses and at least one collection pass; distinct by content hash")
    assumptions = ["times are int64 ns (harness clock time.Unix(0, ns)), monotone and inside one span of 2^62 ns (146 years): "
                   "beyond it the code's int64 addition wraps and an idle address is refused (mirrored by the model, outside the theorems)",
                   "an address is zone identity + family + 128 bits (two addresses differing only in the zone are different keys); "
                   "the key of each source is produced by the real conn.StdNetBind.receiveIP (hook conn.VerifReceiveIP), Linux batch path, no control data",
                   "the all-schedules theorem is for Allow with the insertion re-checked under the write lock and without a collection "
                   "pass between a caller's lookup and its charge; for the code as found the envelope is refuted (F2)",
                   "device/receive.go consults Allow only under load after the MAC2 gate (covered by the C03/C13 co-simulation, not here)"]
    trusted_extra = ["translator harness/cmd/rlast (go/parser over ratelimiter/ratelimiter.go: the body of Allow and the per-entry body of "
                     "cleanup as terms of the deep-embedded language of Ratelimit/Ast.v; lock operations are emitted and skipped by the sequential "
                     "interpreter; the interpreter shares wrap64 / elapsed with the model; unrecognised constructs become Unknown nodes; notes/C19-ast.md)",
                     "Base/Ints.v: primitive Uint63 literals carry addresses and times in generated case files only",
                     "the concurrent scenario relies on the limiter calling its clock between lookup and insert (blocking clock = yield point)"]

    def model_search(self, broken):
        """Ratelimit/AstProofs.v no longer checks: compare the interpreted source with the model on the grid of
        Ratelimit/AstGrid.v (entry cells x clock values; cleanup condition)."""
        import re
        d = os.path.join(self.dir, "modelsearch")
        os.makedirs(d, exist_ok=True)
        open(os.path.join(d, "Search.v"), "w").write(
            "From Coq Require Import String.\n"
            "From WG Require Import Base.Prelude Gen.Constants Ratelimit.Model Ratelimit.Ast Gen.RlAst Ratelimit.AstGrid.\n"
            "Definition w := Eval vm_compute in (firstn 2 diffs, firstn 2 cdiffs).\nPrint w.\n")
        rc, o = vlib.sh(["timeout", "600", "coqc", "-Q", os.path.join(vlib.COQ, "theories"), "WG", "Search.v"], cwd=d)
        if rc != 0:
            return None
        flat = " ".join(o.split())
        m = re.search(r"w = (.*?) : ", flat)
        if not m or m.group(1).replace(" ", "") in ("([],[])", "(nil,nil)"):
            return None
        # an interpreter that stopped (None in the third component) is not a behaviour of the code
        if "Some" not in m.group(1).split("],")[0] and "[]" in m.group(1).split("],")[-1]:
            return None
        return {"signature": "interpreted-source-differs-from-the-model-of-the-token-bucket",
                "differences": m.group(1)[:1500],
                "how_to_read": "Allow: (entry before as Some (lastTime, tokens) or None, clock, interpreted source: Some (entry after, decision), "
                               "model: (lastTime, tokens, decision)); cleanup: (lastTime, clock) on which the delete condition differs",
                "replay": "coqc -Q coq/theories WG out/C19/modelsearch/Search.v ; on the implementation: harness/cmd/c19 -replay with one "
                          "address, VerifSetClock at the listed times"}

    def __init__(self):
        self.dir = os.path.join(vlib.OUT, "C19")
        # translator G2: the bodies of Allow / cleanup, regenerated from the source on every run
        self.translators = [lambda: vlib.gen_file("rlast", os.path.join("Gen", "RlAst.v"), ["-repo", vlib.REPO])]
        self.conc_file = None
        self.conc_index = None
        self.dev_file = None
        self.dev_index = None
        self.live_file = None
        self.live_index = None
        self.forced_file = None
        self.forced_index = None

    def _load(self, d):
        meta = json.load(open(os.path.join(d, "cases.json")))
        meta["shards"] = meta.get("shards") or []
        files = [os.path.join(d, s["file"]) for s in meta["shards"]]
        return meta, files

    def _run_go(self, args, d):
        exe = vlib.build_go("c19")
        rc, o = vlib.sh([exe] + args, cwd=vlib.ROOT, timeout=900)
        if rc != 0:
            raise CheckError("K.C19.driver", o)
        return self._load(d)

    def generate(self, seed, tier, mult):
        n = (300 if tier == "quick" else 4000) * mult
        shards = 16 if tier == "quick" else 64
        meta, files = self._run_go(["-seed", str(seed), "-n", str(n), "-shards", str(shards), "-out", self.dir,
                                    "-corpus", os.path.join(vlib.ROOT, "corpus", "C19"), "-conc", "16"], self.dir)
        self.shards = meta["shards"]
        self.conc_index = meta.get("conc_index")
        self.conc_file = os.path.join(self.dir, meta["conc_file"]) if meta.get("conc_file") else None
        if self.conc_file:
            files = files + [self.conc_file]
        self.dev_index = meta.get("dev_index")
        self.dev_file = os.path.join(self.dir, meta["dev_file"]) if meta.get("dev_file") else None
        if self.dev_file:
            files = files + [self.dev_file]
        self.live_index = meta.get("live_index")
        self.live_file = os.path.join(self.dir, meta["live_file"]) if meta.get("live_file") else None
        if self.live_file:
            files = files + [self.live_file]
        self.forced_index = meta.get("forced_index")
        self.forced_file = os.path.join(self.dir, meta["forced_file"]) if meta.get("forced_file") else None
        if self.forced_file:
            files = files + [self.forced_file]
        self.extra_coverage = {}
        if self.forced_index is not None:
            self.extra_coverage["forced_schedules"] = [x["forced"]["summary"] for x in meta["cases"] if x.get("forced")]
        if self.live_index is not None:
            self.extra_coverage["real_collector_liveness"] = meta["cases"][self.live_index]["live"]["summary"]
        c = meta["cases"][self.conc_index]["conc"] if self.conc_index is not None else None
        if c:
            self.extra_coverage["concurrent_scenario"] = {k: c[k] for k in c if k != "decisions"}
        if self.dev_index is not None:
            ds = [x["dev"] for x in meta["cases"][self.dev_index:] if x.get("dev")]
            self.extra_coverage["device_level"] = {"traces": [d["summary"] for d in ds],
                                                   "valid_traces": sum(1 for d in ds if d["valid"]),
                                                   "discarded_attempts": sum(d["discarded_attempts"] for d in ds),
                                                   "discard_reasons": [r for d in ds for r in (d.get("discard_reasons") or [])]}
        return files, meta["cases"]

    @staticmethod
    def _fails(shards, files, outputs, conc_file, conc_index, dev_file=None, dev_index=None, live_file=None, live_index=None,
               forced_file=None, forced_index=None):
        res = []
        for s, f in zip(shards, files):
            for (idx, kind, clause, pos) in vlib.parse_n_tuples(vlib.coq_value(outputs[f], "bad")):
                res.append({"case": s["first"] + idx, "kind": kind, "clause": clause, "pos": pos})
        if conc_file and conc_file in outputs:
            for (idx, kind, clause, pos) in vlib.parse_n_tuples(vlib.coq_value(outputs[conc_file], "cbad")):
                res.append({"case": conc_index, "kind": kind, "clause": clause, "pos": pos,
                            "admitted": vlib.parse_n_list(vlib.coq_value(outputs[conc_file], "cadm"))[0]})
        if dev_file and dev_file in outputs:
            for (idx, kind, clause, pos) in vlib.parse_n_tuples(vlib.coq_value(outputs[dev_file], "dbad")):
                res.append({"case": dev_index + idx, "kind": kind, "clause": clause, "pos": pos})
        if live_file and live_file in outputs:
            for (idx, kind, clause, pos) in vlib.parse_n_tuples(vlib.coq_value(outputs[live_file], "lbad")):
                res.append({"case": live_index, "kind": kind, "clause": clause, "pos": pos})
        if forced_file and forced_file in outputs:
            for (idx, kind, clause, pos) in vlib.parse_n_tuples(vlib.coq_value(outputs[forced_file], "fbad")):
                res.append({"case": forced_index + idx, "kind": kind, "clause": clause, "pos": pos})
        return res

    def failures(self, outputs, files, cases):
        return self._fails(self.shards, files, outputs, self.conc_file, self.conc_index, self.dev_file, self.dev_index,
                           self.live_file, self.live_index, self.forced_file, self.forced_index)

    def stats(self, outputs):
        tot = [0] * 9
        for f, o in outputs.items():
            if f in (self.conc_file, self.dev_file, self.live_file, self.forced_file):
                continue
            v = vlib.parse_n_list(vlib.coq_value(o, "st"))
            tot = [a + b for a, b in zip(tot, v)]
        names = ["new_entry", "admitted", "refused", "refused_with_tokens_eq_packetCost", "refill_capped",
                 "int64_wrap_or_saturation", "collection_passes", "passes_removing_entries", "histories_outside_hypothesis"]
        return dict(zip(names, tot))

    def run_cases(self, cases):
        d = os.path.join(self.dir, "rerun")
        os.makedirs(d, exist_ok=True)
        for f in os.listdir(d):
            if f.startswith("cases_C19_"):
                os.remove(os.path.join(d, f))
        inp = os.path.join(d, "in.json")
        def inp_of(c):
            if c.get("conc"):
                return {"conc": {"k": c["conc"].get("k", 16), "followups": c["conc"].get("followups", 8)}, "gen": "concurrent-new-address"}
            if c.get("dev"):
                return {"dev": {"family": c["dev"].get("family", "v4")}, "gen": "device-level"}
            if c.get("live") is not None:
                return {"live": {}, "gen": "real-collector-liveness"}
            if c.get("forced"):
                return {"forced": {"name": c["forced"]["name"]}, "gen": "forced-" + c["forced"]["name"]}
            return {"addrs": c["addrs"], "ops": c["ops"], "pa": c.get("pa", 0)}
        json.dump([inp_of(c) for c in cases], open(inp, "w"))
        meta, files = self._run_go(["-replay", inp, "-out", d], d)
        cf = os.path.join(d, meta["conc_file"]) if meta.get("conc_file") else None
        df = os.path.join(d, meta["dev_file"]) if meta.get("dev_file") else None
        lf = os.path.join(d, meta["live_file"]) if meta.get("live_file") else None
        ff = os.path.join(d, meta["forced_file"]) if meta.get("forced_file") else None
        outs = vlib.run_case_files(files + ([cf] if cf else []) + ([df] if df else []) + ([lf] if lf else []) + ([ff] if ff else []))
        self.last_rerun = meta["cases"]
        res = self._fails(meta["shards"], files, outs, cf, meta.get("conc_index"), df, meta.get("dev_index"), lf, meta.get("live_index"),
                         ff, meta.get("forced_index"))
        # replayed sequential cases keep their order; the harness puts a concurrent case after them and device cases last
        seq = lambda c: not c.get("conc") and not c.get("dev") and c.get("live") is None and not c.get("forced")
        order = ([i for i, c in enumerate(cases) if seq(c)] + [i for i, c in enumerate(cases) if c.get("conc")] +
                 [i for i, c in enumerate(cases) if c.get("dev")] + [i for i, c in enumerate(cases) if c.get("forced")] +
                 [i for i, c in enumerate(cases) if c.get("live") is not None])
        for f in res:
            f["case"] = order[f["case"]]
        return res

    def shrink_candidates(self, case):
        if case.get("conc") or case.get("dev") or case.get("live") is not None or case.get("forced"):
            return
        ops = case["ops"]
        n = len(ops)
        chunk = n // 2
        while chunk >= 1:
            for i in range(0, n, chunk):
                cand = ops[:i] + ops[i + chunk:]
                if cand and len(cand) < n:
                    yield {"addrs": case["addrs"], "ops": cand, "pa": case.get("pa", 0)}
            chunk //= 2

    def signature(self, case, f):
        if case.get("conc"):
            return CONC_SIG
        if case.get("forced"):
            return CLAUSE.get(f.get("clause"), "forced-clause%s" % f.get("clause"))
        if case.get("live") is not None:
            return "collector-" + CLAUSE.get(f.get("clause"), "clause%s" % f.get("clause"))
        if case.get("dev"):
            return "device-" + CLAUSE.get(f.get("clause"), "clause%s" % f.get("clause"))
        return "sequential-" + CLAUSE.get(f.get("clause"), "clause%s" % f.get("clause"))

    def nontrivial(self, c):
        if c.get("forced"):
            return bool(c["forced"].get("valid"))
        if c.get("live") is not None:
            return bool(c["live"].get("emptied_by_real_collector"))
        if c.get("conc"):
            return True
        if c.get("dev"):
            return bool(c["dev"].get("valid"))
        adm, ref = set(), set()
        gc = False
        i = 0
        for o in c["ops"]:
            if o["a"] < 0:
                gc = True
            else:
                (adm if c["obs"][i] else ref).add(o["a"])
            i += 1
        return gc and len(adm) >= 2 and len(ref) >= 1

    def sample(self, c):
        if c.get("forced"):
            return {"gen": c.get("gen"), "forced": c["forced"]["summary"]}
        if c.get("live") is not None:
            return {"gen": c.get("gen"), "live": c["live"]["summary"]}
        if c.get("dev"):
            return {"gen": c.get("gen"), "device": c["dev"]["summary"]}
        if c.get("conc"):
            return {"gen": c.get("gen"), "conc": {k: v for k, v in c["conc"].items() if k != "decisions"}}
        return {"gen": c.get("gen"), "addrs": c["addrs"], "ops": [[o["a"], o["t"]] for o in c["ops"][:12]],
                "observed": c["obs"][:12], "length": len(c["ops"])}


def check(tier, seed):
    return vlib.engine(Prop(), tier, seed)


def replay(path):
    obj = json.load(open(path))
    p = Prop()
    case = obj.get("input") or obj
    fs = p.run_cases([case])
    obs = p.last_rerun[0]
    print(json.dumps({"failures": fs, "observed": obs.get("conc") or (obs.get("dev") or {}).get("summary") or (obs.get("live") or {}).get("summary") or (obs.get("forced") or {}).get("summary") or obs.get("obs")}))
    if any(f["kind"] == 2 for f in fs):
        print("VIOLATION property=C19 replay=%s" % path)
        return 1
    return 0
