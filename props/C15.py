# C15 — revocation: slice model Revoke/Model.v (Coq theorems over all event lists) + co-simulation of the real device
# with the removal / key change placed at every life-cycle point, probes afterwards; thorough adds the raced variant.
import json, os
import vlib
from vlib import CheckError

REVOKE = ("remove", "replace", "setkey")
UNOBSERVED = 4294967295


class Prop:
    pid = "C15"
    vo_check = ["theories/Revoke/Check.vo"]
    vo_props = ["theories/Props/C15.vo"]
    k_names = ["trace(device under sim bind/tun: datagrams, TUN writes, index table, peer map, keypair slots == Revoke.Model.step)",
               "spec(Revoke.Spec.holdsb on the observed trace)"]
    rule = ("scenario = plan of harness actions on a fresh device with four remote parties: grid of 12 life-cycle points "
            "(no session, initiation sent with 1/3 packets staged, initiation received, one key in either role, two keys "
            "prev+cur / cur+next, two keys + pending handshake, staged without endpoint, down, down/up) x 11 revocations "
            "(remove, remove of an endpoint-less peer, replace_peers, replace+re-add, remove+re-add, private_key new / same / "
            "onto the peer's key / onto a bystander's key / new-and-back, self-peer add, private_key + peer sections incl. the device's own new key in ONE set operation) x 30 probes (TUN to old prefixes, "
            "transport under every session made so far, response to every captured initiation, fresh initiation for old and "
            "new identity, full new handshakes, old sessions again), plus 32 near-key plans (replacement private key = current key with byte k changed, k = 0..31; peers whose public key is a one-byte neighbour of the device's current / next public key), plus random plans from one PRNG; plus revocations placed inside the device's own goroutines through a harness-owned Logger / the sim SendGate (between two packets of a TUN batch, between consuming an initiation and answering it, between consuming a response and deriving the session, while a timer callback or the sequential sender is inside Bind.Send with 1 or 5 encrypted packets queued behind it); thorough adds rounds of "
            "{initiation or TUN packet in flight || remove=true}; non-trivial = at least one revocation that hits a peer "
            "with a session, a pending handshake or staged packets and at least three probes with an effect before or after; "
            "distinct by content hash of plan and observations")
    assumptions = ["crypto is exercised through the real code on both sides (device and the harness's own implementation); the Coq "
                   "model treats authenticity symbolically (events say with which keys a message was built)",
                   "sequential tier: one event at a time with quiescence in between; handshake clocks (flood 20 ms, retransmit 5 s) "
                   "are moved with the VerifShiftHandshakeTimes hook, keys are never aged (F3b combination avoided)",
                   "raced tier (thorough): specification only, the sequential model makes no prediction"]
    trusted_extra = ["harness/sim, harness/ref, harness/cosim (simulated bind/TUN, independent protocol implementation, quiescence detector)"]

    def __init__(self):
        self.dir = os.path.join(vlib.OUT, "C15")
        self.extra_coverage = {}

    def _load(self, d):
        meta = json.load(open(os.path.join(d, "cases.json")))
        files = [os.path.join(d, s["file"]) for s in meta["shards"]]
        return files, meta

    def _run_go(self, args):
        exe = vlib.build_go("c15")
        rc, o = vlib.sh([exe] + args, cwd=vlib.ROOT, timeout=3000)
        if rc != 0:
            raise CheckError("K.C15.driver", o)
        files, meta = self._load(self.dir)
        self.shards = meta["shards"]
        cases = meta["cases"]
        races = [c for c in cases if c.get("race")]
        self.extra_coverage = {
            "scenarios": len(cases), "steps": sum(len(c.get("steps") or []) for c in cases),
            "actions_not_applicable": sum(c.get("skipped", 0) for c in cases),
            "steps_not_settled": sum(c.get("slow", 0) for c in cases),
            "stuck": [c["stuck"] for c in cases if c.get("stuck")][:5],
            "race_rounds": sum(1 for c in races if c["race"]["kind"] not in ("drain", "inside-batch", "inside-handshake", "timer-callback", "queued", "inside-response")),
            "queued_rounds": sum(1 for c in races if c["race"]["kind"] == "queued"),
            "queued_packets_waiting_at_removal": sum(c["race"].get("queued_packets", 0) for c in races if c["race"]["kind"] == "queued"),
            "queued_datagrams_begun_after_peer_stopped": sum(c["race"]["datagrams_after_return"] for c in races if c["race"]["kind"] == "queued"),
            "inside_response_rounds": sum(1 for c in races if c["race"]["kind"] == "inside-response"),
            "inside_response_current_keypair_after_identity_change": sum(1 for c in races if c["race"].get("current_keypair_after")),
            "inside_handshake_rounds": sum(1 for c in races if c["race"]["kind"] == "inside-handshake"),
            "timer_callback_rounds": sum(1 for c in races if c["race"]["kind"] == "timer-callback"),
            "timer_callback_removal_returned_while_send_parked": sum(1 for c in races if c["race"].get("removal_returned_while_send_parked")),
            "inside_batch_rounds": sum(1 for c in races if c["race"]["kind"] == "inside-batch"),
            "race_ghost_index_entries": sum(1 for c in races if c["race"]["ghost_entries"] > 0),
            "race_datagram_after_return": sum(1 for c in races if c["race"]["datagrams_after_return"] > 0),
            "drain_rounds": sum(1 for c in races if c["race"]["kind"] == "drain"),
            "drain_datagrams_during_drain": sum(c["race"].get("datagrams_during_drain", 0) for c in races if c["race"]["kind"] == "drain"),
        }
        for s in self.extra_coverage["stuck"]:
            vlib.log("C15: control-plane call did not return:", s)
        return files, cases

    def generate(self, seed, tier, mult):
        quick = tier == "quick"
        n = (120 if quick else 1500) * mult
        args = ["-seed", str(seed), "-n", str(n), "-shards", "16" if quick else "48", "-out", self.dir,
                "-corpus", os.path.join(vlib.ROOT, "corpus", "C15"), "-race", "0" if quick else "400",
                "-drain", "3" if quick else "8"]
        return self._run_go(args)

    def _fails(self, outputs, shards, files):
        res = []
        for s, f in zip(shards, files):
            for (idx, kind, pos) in vlib.parse_n_tuples(vlib.coq_value(outputs[f], "bad")):
                res.append({"case": s["first"] + idx, "kind": kind, "pos": pos, "step": pos // 10, "part": pos % 10})
        return res

    def failures(self, outputs, files, cases):
        return self._fails(outputs, self.shards, files)

    def stats(self, outputs):
        names = ["steps", "removals_of_present_peer", "replace_peers", "identity_changes", "identity_changes_dropping_self_peer",
                 "same_key_sets", "transports_accepted", "transports_refused", "responses_accepted", "responses_refused",
                 "initiations_answered", "initiations_refused", "tun_sent_or_staged", "tun_unrouted_or_dropped",
                 "revocations_hitting_two_keypairs", "revocations_hitting_pending_handshake", "revocations_hitting_staged_packets"]
        tot = [0] * len(names)
        for o in outputs.values():
            v = vlib.parse_n_list(vlib.coq_value(o, "st"))
            tot = [a + b for a, b in zip(tot, v)]
        return dict(zip(names, tot))

    def run_cases(self, cases):
        d = os.path.join(self.dir, "rerun")
        os.makedirs(d, exist_ok=True)
        inp = os.path.join(d, "in.json")
        json.dump([{"plan": c["plan"], "mode": c.get("mode", 0), "gen": c.get("gen", "replay")} for c in cases], open(inp, "w"))
        exe = vlib.build_go("c15")
        rc, o = vlib.sh([exe, "-replay", inp, "-out", d], cwd=vlib.ROOT, timeout=1200)
        if rc != 0:
            raise CheckError("K.C15.driver", o)
        files, meta = self._load(d)
        outs = vlib.run_case_files(files)
        self.last_rerun = meta["cases"]
        fs = self._fails(outs, meta["shards"], files)
        # the engine hands the shrunk INPUT to signature(): attach what was observed on it
        for i, c in enumerate(cases):
            if i < len(meta["cases"]):
                c["steps"] = meta["cases"][i].get("steps")
                mine = [f for f in fs if f["case"] == i and f["kind"] == 2]
                c["_fail"] = mine[0] if mine else None
        return fs

    def shrink_candidates(self, case):
        if case.get("mode", 0) == 1 or (len(case["plan"]) == 1 and case["plan"][0].split()[0] in ("drain", "insidebatch", "insidehandshake", "insideresponse", "queued", "race", "timercallback")):
            return
        plan = case["plan"]
        n = len(plan)
        chunk = max(n // 2, 1)
        while chunk >= 1:
            for i in range(0, n, chunk):
                cand = plan[:i] + plan[i + chunk:]
                if cand and len(cand) < n:
                    yield {"plan": cand, "mode": 0, "gen": "shrunk"}
            chunk //= 2

    def signature(self, case, f):
        if case.get("_fail"):
            f = case["_fail"]
        clause = f["pos"] % 10
        if case.get("mode", 0) == 1 and str(case.get("gen", "")).startswith("timer-callback"):
            return {2: "removal-timer-callback-ghost-index-entry", 1: "removal-timer-callback-datagram-after-return"}.get(clause, "removal-timer-callback-clause%d" % clause)
        if case.get("mode", 0) == 1 and str(case.get("gen", "")).startswith("queued"):
            return {2: "removal-queued-ghost-index-entry", 1: "removal-queued-data-transmitted-after-peer-stopped"}.get(clause, "removal-queued-clause%d" % clause)
        if case.get("mode", 0) == 1 and str(case.get("gen", "")).startswith("inside-response"):
            return {2: "removal-inside-response-ghost-index-entry", 1: "removal-inside-response-datagram-after-return",
                    3: "identity-change-inside-response-transport-under-old-handshake",
                    4: "identity-change-inside-response-handshake-under-old-identity"}.get(clause, "revocation-inside-response-clause%d" % clause)
        if case.get("mode", 0) == 1 and str(case.get("gen", "")).startswith("inside-handshake"):
            return {2: "removal-inside-handshake-ghost-index-entry", 1: "removal-inside-handshake-datagram-after-return",
                    4: "identity-change-inside-handshake-response-under-old-identity"}.get(clause, "revocation-inside-handshake-clause%d" % clause)
        if case.get("mode", 0) == 1 and str(case.get("gen", "")).startswith("inside-batch"):
            return {2: "removal-inside-tun-batch-ghost-index-entry", 1: "removal-inside-tun-batch-datagram-after-return"}.get(clause, "removal-inside-tun-batch-clause%d" % clause)
        if case.get("mode", 0) == 1 and str(case.get("gen", "")).startswith("drain"):
            return {2: "removal-drain-ghost-index-entry", 1: "removal-drain-datagram-after-return"}.get(clause, "removal-drain-clause%d" % clause)
        if case.get("mode", 0) == 1:
            return {2: "removal-race-ghost-index-entry", 1: "removal-race-datagram-after-return"}.get(clause, "removal-race-clause%d" % clause)
        steps = case.get("steps") or []
        i = min(f["pos"] // 10, len(steps) - 1)
        if i < 0:
            return "seq-clause%d" % clause
        rev = "none"
        for s in steps[:i + 1]:
            if s["ev"]["k"] in REVOKE:
                rev = s["ev"]["k"]
        return "seq-clause%d-on-%s-after-%s" % (clause, steps[i]["ev"]["k"], rev)

    def nontrivial(self, c):
        steps = c.get("steps") or []
        if c.get("mode", 0) == 1:
            return bool(c.get("race"))
        hit = False
        effects = 0
        for s in steps:
            k = s["ev"]["k"]
            if k in REVOKE:
                pass
            if s["obs"]["outs"]:
                effects += 1
        # a revocation that found something to revoke: the step before it shows sessions / pending handshake / staged packets
        for i, s in enumerate(steps):
            if s["ev"]["k"] in REVOKE and i > 0:
                j = i - 1
                while j > 0 and steps[j]["obs"]["keys"] == [UNOBSERVED]:
                    j -= 1
                for row in steps[j]["obs"]["rows"]:
                    if any(row[2:6]) or row[8]:
                        hit = True
        return hit and effects >= 3

    def sample(self, c):
        return {"gen": c.get("gen"), "plan": c["plan"][:14], "actions": len(c["plan"]), "steps": len(c.get("steps") or []),
                "race": c.get("race")}


def check(tier, seed):
    return vlib.engine(Prop(), tier, seed)


def replay(path):
    obj = json.load(open(path))
    p = Prop()
    case = obj.get("input") or obj
    if isinstance(case, list):
        case = case[0]
    fs = p.run_cases([case])
    c = p.last_rerun[0]
    print(json.dumps({"failures": fs, "gen": c.get("gen"), "race": c.get("race"), "stuck": c.get("stuck"),
                      "steps": [{"ev": s["ev"], "outs": s["obs"]["outs"]} for s in (c.get("steps") or [])][-12:]}))
    if any(f["kind"] == 2 for f in fs):
        print("VIOLATION property=C15 replay=%s" % path)
        return 1
    return 0
