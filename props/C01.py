# C01 — outbound cryptokey routing: mirror of the TUN -> wire path (Coq) + (a) whole-domain sweep of
# calculatePaddingSize and (b) co-simulation of the real device, every emitted datagram opened by the
# harness's own protocol implementation.
import base64, json, os
import vlib
from vlib import CheckError

STAT_NAMES = ["tun_packets", "not_v4_v6_or_short_header", "no_route", "routed",
              "data_datagrams", "keepalives", "initiations", "responses",
              "pad_mtu0", "pad_len_gt_mtu", "pad_clamped_to_mtu", "pad_roundup16"]


class Prop:
    pid = "C01"
    vo_check = ["theories/Outbound/Check.vo", "theories/Gen/PadAst.vo"]
    vo_props = ["theories/Props/C01.vo"]
    k_names = ["padding(device.calculatePaddingSize == Outbound.Model.pad_len on the boundary domain)",
               "datagrams(device TUN->wire path under co-simulation == Outbound.Model.step)"]
    rule = ("(a) calculatePaddingSize on len in 0..2100 + {k*mtu+d} + the 64 KiB edge x mtu in {0,1,15,16,17,576,1280,1420,1500,9000,65535}; "
            "(b) co-simulation scenarios: 1-4 peers (with/without endpoint, with/without session; sessions by handshakes in both roles), "
            "nested/overlapping v4+v6 allowed-IPs from a dense family, TUN batches of 1..128 packets with every version nibble, lengths on "
            "the header and MTU boundaries and beyond the MTU, destinations on every prefix boundary +-1, MTU changes by TUN event, roaming, "
            "key expiry, handshake rate limit; source-port-only moves of a peer (roaming keepalive, response, initiation from the same address "
            "and another port); racing responses (3 x 40 rounds + random: two authenticating responses that differ in the Sender word and "
            "the source address, one receive batch, two handshake workers); every datagram the device emits is opened with the harness's own implementation: endpoint, "
            "receiver index, counter, length, plaintext; non-trivial = scenario in which at least one TUN packet was transmitted and at "
            "least one was not (unroutable / malformed / staged), or a pad sweep; distinct by content hash")
    assumptions = ["order of datagrams is compared per peer; between peers it is not determined (map iteration, one sender goroutine per peer)",
                   "send counters stay far below RejectAfterMessages (nonce exhaustion is C04's subject)",
                   "time thresholds (RekeyTimeout 5 s, RejectAfterTime 180 s) are crossed with the VerifShift* hooks by 6 s / 200 s; "
                   "scenarios last milliseconds so no timer fires",
                   "keepalives of the model (SendKeepalive on an answered handshake with nothing staged) are proved about but not produced by this harness",
                   "all interleavings of TUN reader, encryption workers and sender: order and completeness are C12's subject; here the device runs "
                   "its real goroutines and is observed at quiescence"]
    trusted_extra = ["translator harness/cmd/padast (go/parser: body of calculatePaddingSize as a deep-embedded AST, Go int as Z with 64-bit wrap; unrecognised constructs become Unknown nodes; notes/C01-C06-ast.md)",
                     "harness/ref (own WireGuard implementation on x/crypto) opens every emitted datagram",
                     "DataPath/Pack.v + Base/Ints.v: primitive Uint63 literals carry packet bytes in generated case files only",
                     "DataPath/Table.v: duplicate prefixes resolved to the last assignment (C08's semantics) before the specification is evaluated"]

    def __init__(self):
        self.dir = os.path.join(vlib.OUT, "C01")
        # translator G2: function bodies regenerated from the source on every run
        self.translators = [lambda: vlib.gen_file("padast", os.path.join("Gen", "PadAst.v"), ["-repo", vlib.REPO])]

    def _run_go(self, args, d):
        exe = vlib.build_go("c01")
        rc, o = vlib.sh([exe] + args, cwd=vlib.ROOT, timeout=1800)
        if rc != 0:
            raise CheckError("K.C01.driver", o[-3000:])
        meta = json.load(open(os.path.join(d, "cases.json")))
        files = [os.path.join(d, s["file"]) for s in meta["shards"]]
        return files, meta

    def generate(self, seed, tier, mult):
        n = min((140 if tier == "quick" else 1500) * mult, 4000)   # the 10x search budget is capped (co-simulation + 64 KiB packets)
        shards = 16 if tier == "quick" else 48
        args = ["-seed", str(seed), "-n", str(n), "-shards", str(shards), "-out", self.dir,
                "-corpus", os.path.join(vlib.ROOT, "corpus", "C01")]
        if tier != "quick":
            args.append("-big")
        files, meta = self._run_go(args, self.dir)
        self.shards = meta["shards"]
        self.extra_coverage = {"discarded_scenarios": meta.get("discarded", 0), "crashed_scenarios": meta.get("crashed", 0),
                               "partial_scenarios": sum(1 for c in meta["cases"] if c.get("partial") and not c.get("flood")),
                               "flood_datagrams_all_opened": sum((c.get("flood") or {}).get("good", 0) for c in meta["cases"]),
                               "flood_offenders": sum((c.get("flood") or {}).get("offenders", 0) for c in meta["cases"]),
                               "flood_stalled": sum(1 for c in meta["cases"] if (c.get("flood") or {}).get("stalled")),
                               "pad_pairs": sum(len(c.get("lens") or []) for c in meta["cases"] if c.get("kind") == "pad")}
        return files, meta["cases"]

    def _fails(self, shards, files, outputs):
        res = []
        for s, f in zip(shards, files):
            for (idx, kind, pos) in vlib.parse_n_tuples(vlib.coq_value(outputs[f], "bad")):
                res.append({"case": s["first"] + idx, "kind": kind, "pos": pos})
        return res

    def failures(self, outputs, files, cases):
        return self._fails(self.shards, files, outputs)

    def stats(self, outputs):
        tot = [0] * len(STAT_NAMES)
        for o in outputs.values():
            v = vlib.parse_n_list(vlib.coq_value(o, "st"))
            tot = [a + b for a, b in zip(tot, v)]
        return dict(zip(STAT_NAMES, tot))

    def run_cases(self, cases):
        d = os.path.join(self.dir, "rerun")
        os.makedirs(d, exist_ok=True)
        inp = os.path.join(d, "in.json")
        json.dump(cases, open(inp, "w"))
        files, meta = self._run_go(["-replay", inp, "-out", d], d)
        outs = vlib.run_case_files(files)
        self.last_rerun = meta["cases"]
        fs = self._fails(meta["shards"], files, outs)
        # a re-run the harness discarded (did not settle, timing margins missed) is not a verdict
        fs = [f for f in fs if not meta["cases"][f["case"]].get("discarded")]
        # hand the re-run's observations and failing positions back on the candidate objects, so that
        # signature() of a shrunk case looks at the shrunk case's own failing step
        if len(cases) == len(meta["cases"]):
            for i, c in enumerate(cases):
                pos = {str(f["kind"]): f["pos"] for f in fs if f["case"] == i}
                c.clear()
                c.update(meta["cases"][i])
                c["_pos"] = pos
        return fs

    def shrink_candidates(self, case):
        if case.get("kind") == "crashed" or (case.get("gen") or "").startswith(("real-bind", "flood-", "race-")):
            return    # race-responses: a statistical pass (which worker wins is up to the scheduler); real-bind scenarios are regenerated by the harness (rounds), and which receive batch is mixed is up to the kernel
        if case.get("kind") == "pad":
            lens = case["lens"]
            n = len(lens)
            chunk = n // 2
            cnt = 0
            while chunk >= 1 and cnt < 90:
                for i in range(0, n, chunk):
                    cand = lens[:i] + lens[i + chunk:]
                    if cand and len(cand) < n:
                        c = dict(case)
                        c["lens"] = cand
                        c["pads"] = []
                        cnt += 1
                        yield c
                chunk //= 2
            return
        evs = case["evs"]
        # drop TUN / MTU / roam events (handshake, shift, expire and down/up events carry the session structure)
        free = [i for i, e in enumerate(evs) if e["k"] in ("tun", "tunf", "mtu", "roam", "replayinit", "conf")]
        chunk = max(len(free) // 2, 1)
        cnt = 0
        while chunk >= 1 and cnt < 60:
            for s in range(0, len(free), chunk):
                drop = set(free[s:s + chunk])
                if drop and len(drop) < len(evs):
                    c = dict(case)
                    c["evs"] = [e for i, e in enumerate(evs) if i not in drop]
                    cnt += 1
                    yield c
            if chunk == 1:
                break
            chunk //= 2
        for i, e in enumerate(evs):
            pk = e.get("pkts") or []
            if len(pk) > 1:
                parts = (pk[:len(pk) // 2], pk[len(pk) // 2:])
                for part in parts:
                    c = dict(case)
                    ne = dict(e)
                    ne["pkts"] = part
                    c["evs"] = evs[:i] + [ne] + evs[i + 1:]
                    yield c

    def signature(self, case, f):
        if case.get("kind") == "pad":
            pos = (case.get("_pos") or {}).get(str(f.get("kind")), f.get("pos", 0))
            ln = case["lens"][pos] if pos < len(case["lens"]) else -1
            mtu = case["mtu"]
            rel = "mtu0" if mtu == 0 else ("len>mtu" if ln > mtu else ("len<=mtu"))
            return "padding-rule:" + rel
        if case.get("kind") == "crashed":
            return "device-crashed"
        evs = case["evs"]
        if (case.get("gen") or "").startswith("real-bind"):
            p0 = (case.get("_pos") or {}).get(str(f.get("kind")), f.get("pos", 0))
            if p0 < len(evs) and any(o["kind"] == 4 and o["peer"] and o["ep"] != o["peer"] for o in evs[p0].get("obs") or []):
                return "transport-sent-to-another-peers-endpoint:real-bind-mixed-receive-batch"

        pos = (case.get("_pos") or {}).get(str(f.get("kind")), f.get("pos", 0))
        k = evs[pos]["k"] if pos < len(evs) else "?"
        if pos < len(evs) and any(e["k"] == "conf" for e in evs[:pos + 1]) and any(
                97 <= o["ep"] <= 99 or o["ep"] == 255 or (k == "conf") for o in evs[pos].get("obs") or []):
            return "datagram-follows-an-endpoint-line-of-the-devices-own-key-section"
        if pos < len(evs) and k == "replayinit" and evs[pos].get("obs"):
            return "replayed-latest-initiation-answered:endpoint-moves-to-the-replayer"
        if pos < len(evs):
            # where each peer's endpoint is, and which response of a race was refused, as far as the harness acted
            cur = {i: e for i, e in enumerate(case.get("eps") or [])}
            refused = {}
            for e in evs[:pos + 1]:
                if e["k"] in ("refhs", "anshs", "roam", "conf"):
                    cur[e.get("peer", 0)] = e.get("ep", 0)
                    if e["k"] != "roam":
                        refused.pop(e.get("peer", 0), None)
                elif e["k"] == "anshs2":
                    w = e.get("win", 0)
                    cur[e.get("peer", 0)] = e.get("ep2", 0) if w else e.get("ep", 0)
                    refused[e.get("peer", 0)] = (e.get("ridx", 0) if w else e.get("ridx2", 0), abs(e.get("ep", 0) - e.get("ep2", 0)) == 100)
            for o in evs[pos].get("obs") or []:
                if o["kind"] == 4 and o["peer"] and refused.get(o["peer"] - 1, (None, 0))[0] == o["rcv"]:
                    if refused[o["peer"] - 1][1]:   # the two responses came from one address: index of one, port of the other
                        return "receiver-index-of-one-response-port-of-the-other:racing-responses-from-one-address:after-%s" % k
                    return "receiver-index-of-a-refused-response:racing-responses:after-%s" % k
            for o in evs[pos].get("obs") or []:
                if o["kind"] in (1, 2, 4) and o["peer"] and abs(o["ep"] - cur.get(o["peer"] - 1, 0)) == 100:
                    return "datagram-to-the-old-port-after-authenticated-packet-from-the-new-port:after-%s" % k
            obs = evs[pos].get("obs") or []
            for o in obs:
                raw = base64.b64decode(o.get("raw") or "")
                if o["peer"] == 0 and raw and raw[0] >> 4 in (4, 6) and (case.get("gen") or "").startswith("flood-"):
                    return "tun-packet-on-the-wire-in-the-clear:flood"
            if any(o["kind"] != 0 and o["peer"] == 0 for o in obs) or any(o["kind"] == 0 for o in obs):
                return "datagram-opens-under-no-session:after-%s" % k
            seen = set()
            for e in evs[:pos + 1]:
                for o in e.get("obs") or []:
                    if o["kind"] == 4:
                        key = (o["sess"], o["ctr"])
                        if key in seen and e is evs[pos]:
                            return "same-session-and-counter-twice:after-%s" % k
                        seen.add(key)
            pkts = [base64.b64decode(p or "") for e in evs for p in (e.get("pkts") or [])]
            for o in evs[pos].get("obs") or []:
                pl = base64.b64decode(o.get("plain") or "")
                if o["kind"] == 4 and pl:
                    for q in pkts:
                        if q and len(q) <= len(pl) < len(q) + 16 and pl[:len(q)] == q and any(pl[len(q):]):
                            return "padding-not-zero:after-%s" % k
        kinds = sorted({o["kind"] for o in (evs[pos].get("obs") or [])}) if pos < len(evs) else []
        return "wire-differs-from-property:after-%s:kinds-%s" % (k, "".join(str(x) for x in kinds))

    def nontrivial(self, c):
        if c.get("kind") == "crashed":
            return False
        if c.get("kind") == "pad":
            return True
        npk = sum(len(e.get("pkts") or []) for e in c["evs"])
        data = sum(1 for e in c["evs"] for o in (e.get("obs") or []) if o["kind"] == 4 and o.get("plain"))
        return data > 0 and npk > data

    def sample(self, c):
        if c.get("kind") == "crashed":
            return {"gen": c.get("gen"), "crash": (c.get("crash") or "")[-300:]}
        if c.get("kind") == "pad":
            return {"gen": c.get("gen"), "mtu": c["mtu"], "lens": c["lens"][:8], "pads": c["pads"][:8], "pairs": len(c["lens"])}
        out = {"gen": c.get("gen"), "npeers": c["npeers"], "mtu": c["mtu"], "tun_batch": c.get("tun_batch"), "endpoints": c.get("eps"),
               "table": ["%d:%s/%d->%d" % (e["fam"], base64.b64decode(e["bits"]).hex(), e["len"], e["owner"]) for e in c["table"][:6]],
               "events": []}
        for e in c["evs"][:6]:
            d = {"k": e["k"]}
            if e["k"] in ("tun", "tunf"):
                d["pkt_lens"] = [len(base64.b64decode(p or "")) for p in (e.get("pkts") or [])][:8]
            else:
                d.update({k: e[k] for k in ("peer", "mtu", "ep", "ridx", "ep2", "ridx2", "swap", "win") if k in e})
            d["emitted"] = [{"kind": o["kind"], "peer": o["peer"], "ep": o["ep"], "rcv": o["rcv"], "ctr": o["ctr"], "len": o["len"]}
                            for o in (e.get("obs") or [])][:6]
            out["events"].append(d)
        return out


def check(tier, seed):
    return vlib.engine(Prop(), tier, seed)


def replay(path):
    obj = json.load(open(path))
    p = Prop()
    case = obj.get("input") or obj
    if isinstance(case, list):
        case = case[0]
    fs = p.run_cases([case])
    c = p.last_rerun[0]
    if c.get("kind") == "crashed":
        obs = {"crash": c.get("crash")}
    elif c.get("kind") == "pad":
        obs = {"mtu": c["mtu"], "lens": c["lens"][:20], "pads": c["pads"][:20]}
    else:
        obs = [{"step": i, "k": e["k"], "emitted": [{k: o[k] for k in ("kind", "peer", "sess", "ep", "rcv", "ctr", "len")} for o in e.get("obs") or []]}
               for i, e in enumerate(c["evs"])][:40]
    print(json.dumps({"failures": fs, "signature": p.signature(c, fs[0]) if fs else None, "observed": obs}))
    if any(f["kind"] == 2 for f in fs):
        print("VIOLATION property=C01 replay=%s" % path)
        return 1
    return 0
