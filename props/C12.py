# C12 — crypto pipeline: all-schedules proof of the lock hand-off algorithm (Coq) + trace
# validation of the real device in both directions, decided by the Coq checker.
import json, os
import vlib
from vlib import CheckError


class Prop:
    pid = "C12"
    vo_check = ["theories/Pipeline/Check.vo"]
    vo_props = ["theories/Props/C12.vo"]
    hook_files = ["device/verif_c12.go (VerifPrepareRacingBatch / Enqueue: a batch behind the stop sentinel with a gated worker)"]
    k_names = ["trace(per peer: TUN-write order == datagram arrival order; datagram order == TUN-read order with strictly "
               "increasing counters == Nonce.Seq.number; emitted multiset == submitted multiset at quiescence; every emitted "
               "datagram opens under the session key with its inner packet intact)"]
    rule = ("runs of the real device from ONE PRNG: 1-3 peers with sessions, 2000 packets per direction at the same time, bind/TUN "
            "batch sizes {1,2,7,16,32,64,128}, injection chunks 1..256, packet sizes 36..1400 mixed, GOMAXPROCS {1,2,3,4,8,16}, "
            "0/2/6 CPU hogs, random sleeps in Bind.Send / receive / TUN Read / TUN Write gates, every 6th run a slow consumer with "
            "one-packet containers so that the 1024-deep per-peer queues fill, every 6th run starts with Down / TUN packets for configured "
            "peers while down / Up before the sessions, every 6th run removes one of 2-3 peers (UAPI remove=true) in the middle of a flood "
            "of 1300..1400-byte packets at GOMAXPROCS 2 (the removed peer's lanes only have to be prefixes), two runs in three interleave junk datagrams into the inbound flood (one in 3/8/25: shorter than 32 bytes, unknown receiver index, "
            "unknown type, handshake message of a wrong length, replayed datagram, keepalive, authenticated message with a malformed / "
            "foreign-source inner packet, message under a keypair aged beyond RejectAfterTime): none may reach the TUN, every genuine one must, in order; every 2nd run interleaves forged "
            "datagrams (live receiver index, bad tag; one in 4/10/40) into the inbound flood, one dedicated run per check returns 12 isolated "
            "temporary receive errors (own conn.Bind wrapper) each followed by a batch that must arrive (about 4.5 s, run concurrently), every 6th run "
            "has 3-6 extra flusher goroutines (keepalives, UAPI sets) on 1-3 Ps with 8000 one-packet containers (judged as multisets), every 6th run "
            "takes the interface down and up 4-9 times during a flood (at most once, processed), one dedicated run restarts a peer while a gated "
            "worker holds a batch behind the stop sentinel (hook); non-trivial = quiescent run with at least 500 "
            "packets emitted in each direction; distinct by configuration hash")
    assumptions = ["Go channels are FIFO queues, sync.Mutex Lock/Unlock and goroutine scheduling are those of the transition system "
                   "Pipeline/Model.v (sequentially consistent atomic steps); the theorems are about that system",
                   "queues are unbounded in the model (real ones: 1024 containers, producers block when full)",
                   "no handshake or keepalive during a run (runs last < 3 s; keepalive timers are >= 10 s), one flusher per peer (the TUN reader)",
                   "traces are observations of the schedules that occurred, not of all schedules"]
    trusted_extra = ["Base/Ints.v: primitive Uint63 literals carry the traces in generated case files only",
                     "harness/stress (perturbation, packets with sequence numbers), harness/cosim + ref (independent remote party that "
                     "opens every emitted datagram)"]

    def __init__(self):
        self.dir = os.path.join(vlib.OUT, "C12")
        self.extra_coverage = {}

    def _load(self, d):
        meta = json.load(open(os.path.join(d, "cases.json")))
        return meta, [os.path.join(d, s["file"]) for s in meta["shards"]]

    def generate(self, seed, tier, mult):
        n, pkts = (60, 2000) if tier == "quick" else (300, 4000)
        exe = vlib.build_go("c12")
        rc, o = vlib.sh([exe, "-seed", str(seed), "-n", str(n * mult), "-pkts", str(pkts), "-shards", "16", "-out", self.dir,
                         "-corpus", os.path.join(vlib.ROOT, "corpus", "C12")], cwd=vlib.ROOT, timeout=3000)
        if rc != 0:
            raise CheckError("K.C12.driver", o)
        meta, files = self._load(self.dir)
        self.shards = meta["shards"]
        cases = meta["cases"]
        self.extra_coverage = {
            "discarded_slow_scenarios": sum(1 for c in cases if not c["quiet"]),
            "runs_with_error": sum(1 for c in cases if c["info"].get("error")),
            "runs_with_down_up_prelude": sum(1 for c in cases if c["cfg"].get("down_up")),
            "runs_with_peer_removed_mid_traffic": sum(1 for c in cases if c["cfg"].get("remove")),
            "runs_with_forged_datagrams": sum(1 for c in cases if c["cfg"].get("forged_one_in")),
            "runs_with_junk_inside_receive_batches": sum(1 for c in cases if c["cfg"].get("junk_one_in")),
            "junk_datagrams_injected": sum(c["info"].get("junk", 0) for c in cases),
            "forged_datagrams_injected": sum(c["info"].get("forged", 0) for c in cases),
            "runs_with_isolated_receive_errors": sum(1 for c in cases if c["cfg"].get("recv_errs")),
            "runs_with_batches_staged_before_the_session": sum(1 for c in cases if c["cfg"].get("staged_before")),
            "runs_with_early_data_as_responder": sum(1 for c in cases if c["cfg"].get("resp_early")),
            "runs_with_several_flushers": sum(1 for c in cases if c["cfg"].get("flushers")),
            "runs_with_uapi_reapply_flushers_only": sum(1 for c in cases if c["cfg"].get("flusher_kind") == "uapi"),
            "runs_with_down_up_during_flood": sum(1 for c in cases if c["cfg"].get("down_up_cycles")),
            "runs_restart_race_hook": sum(1 for c in cases if c["cfg"].get("restart_race")),
            "runs_crashed": sum(1 for c in cases if c["info"].get("crash")),
            "datagrams_sent": sum(c["info"].get("datagrams", 0) for c in cases),
            "packets_written": sum(c["info"].get("written", 0) for c in cases),
        }
        return files, cases

    def _fails(self, shards, files, outputs):
        res = []
        for s, f in zip(shards, files):
            for (idx, kind, pos) in vlib.parse_n_tuples(vlib.coq_value(outputs[f], "bad")):
                res.append({"case": s["first"] + idx, "kind": kind, "pos": pos})
        return res

    def failures(self, outputs, files, cases):
        return self._fails(self.shards, files, outputs)

    def stats(self, outputs):
        tot = [0] * 6
        for o in outputs.values():
            v = vlib.parse_n_list(vlib.coq_value(o, "st"))
            tot = [a + b for a, b in zip(tot, v)]
        return dict(zip(["runs", "outbound_lanes", "inbound_lanes", "datagrams_checked", "tun_packets_checked", "quiescent_runs"], tot))

    def run_cases(self, cases):
        d = os.path.join(self.dir, "rerun")
        os.makedirs(d, exist_ok=True)
        inp = os.path.join(d, "in.json")
        json.dump([{"cfg": c["cfg"]} for c in cases], open(inp, "w"))
        exe = vlib.build_go("c12")
        rc, o = vlib.sh([exe, "-replay", inp, "-out", d], cwd=vlib.ROOT, timeout=3000)
        if rc != 0:
            raise CheckError("K.C12.driver", o)
        meta, files = self._load(d)
        outs = vlib.run_case_files(files)
        self.last_rerun = meta["cases"]
        for c, r in zip(cases, meta["cases"]):
            c["out"], c["in"], c["quiet"], c["info"], c["removed"] = r["out"], r["in"], r["quiet"], r["info"], r.get("removed", -1)
            c["mode"] = r.get("mode", "")
        return self._fails(meta["shards"], files, outs)

    def shrink_candidates(self, case):
        # schedule-dependent: a smaller configuration is tried a few times (the engine takes the first that still fails)
        c = case["cfg"]
        for f in (2, 4):
            if c["n_out"] // f >= 100:
                for rep in range(2):
                    yield {"cfg": dict(c, n_out=c["n_out"] // f, n_in=c["n_in"] // f, seed=c["seed"] + rep)}
        if c["peers"] > 1:
            yield {"cfg": dict(c, peers=1)}
        if c["hogs"]:
            yield {"cfg": dict(c, hogs=0)}

    def signature(self, case, f):
        if (case.get("info") or {}).get("crash"):
            return "device-crashed-or-hung-during-run"
        info = case.get("info") or {}
        if info.get("error"):
            return "pipeline-could-not-be-set-up"
        if info.get("tun_reader_stalled"):
            return "outbound-stalled-tun-reader"
        if info.get("cycles_hung") or info.get("flushers_hung") or info.get("remove_hung"):
            return "device-crashed-or-hung-during-run"
        if info.get("restart_returned_while_worker_held_batch"):
            return "restart-released-batch-still-held-by-worker"
        mode = case.get("mode") or ""
        sig = []
        rm = case.get("removed", -1)
        for li, l in enumerate(case.get("out") or []):
            seqs = [s + i for (c, s, n) in (l.get("sent") or []) for i in range(n)]
            ctrs = [c + i for (c, s, n) in (l.get("sent") or []) for i in range(n)]
            if l["bad"]:
                sig.append("outbound-unprocessed-or-foreign-datagram")
            if len(set(seqs)) != len(seqs):
                sig.append("outbound-duplicate")
            elif case.get("quiet") and len(seqs) < l["n"] and li != rm and mode != "atmost":
                sig.append("outbound-lost")
            if seqs != sorted(seqs) and not mode:
                sig.append("outbound-reordered")
            if any(a >= b for a, b in zip(ctrs, ctrs[1:])) and not mode:
                sig.append("outbound-counters-not-increasing")
        for li, l in enumerate(case.get("in") or []):
            seqs = [s + i for (s, n) in (l.get("wr") or []) for i in range(n)]
            if l["bad"]:
                sig.append("inbound-unprocessed-packet")
            if len(set(seqs)) != len(seqs):
                sig.append("inbound-duplicate")
            elif case.get("quiet") and len(seqs) < l["n"] and li != rm:
                sig.append("inbound-lost")
            if seqs != sorted(seqs):
                sig.append("inbound-reordered")
        return "+".join(sorted(set(sig))) or "other"

    def nontrivial(self, c):
        return bool(c["quiet"]) and c["info"].get("datagrams", 0) >= 500 and c["info"].get("written", 0) >= 500

    def sample(self, c):
        return {"cfg": c["cfg"], "quiet": c["quiet"], "info": c["info"],
                "out": [{"n": l["n"], "sent_runs": (l.get("sent") or [])[:4], "bad": l["bad"], "n0": l["n0"]} for l in c["out"]],
                "in": [{"n": l["n"], "written_runs": (l.get("wr") or [])[:4], "bad": l["bad"]} for l in c["in"]]}


def check(tier, seed):
    # two simultaneous runs of this check would overwrite each other's case files in out/C12: serialise them
    with vlib.Lock("C12-run"):
        return vlib.engine(Prop(), tier, seed)


def replay(path):
    obj = json.load(open(path))
    p = Prop()
    case = obj.get("input") or obj
    # schedule-dependent: the configuration is run several times
    bad = []
    for rep in range(5):
        fs = p.run_cases([case])
        bad = [f for f in fs if f["kind"] == 2]
        if bad:
            break
    print(json.dumps({"failures": fs, "observed": p.sample(p.last_rerun[0])})[:4000])
    if bad:
        print("VIOLATION property=C12 replay=%s" % path)
        return 1
    return 0
