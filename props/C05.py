# C05 — replay filter: ring refines the set specification (Coq), correspondence on replay.Filter.
import json, os, subprocess
import vlib
from vlib import CheckError


class Prop:
    pid = "C05"
    vo_check = ["theories/Replay/Check.vo", "theories/Gen/ReplayAst.vo", "theories/Replay/AstGrid.vo"]
    vo_props = ["theories/Props/C05.vo"]
    k_names = ["verdicts(replay.Filter.ValidateCounter/Reset == Replay.Model.step)",
               "verdicts of a GOARCH=386 build of the replay package on the same histories == Replay.Model.step",
               "device(receive path: authenticated transport with counter c reaches the TUN iff Replay.Spec accepts c)"]
    rule = ("histories of ValidateCounter/Reset from one PRNG: forward jumps {1..2^32}, positions behind the greatest "
            "counter around every block (64) and window (8128) edge, duplicates, limit neighbourhood, Reset; "
            "non-trivial = history reaches at least 3 of the 5 specification branches "
            "(ahead, within-window, duplicate, behind-window, over-limit); distinct by content hash")
    assumptions = ["counters are uint64 (model: N below 2^64)",
                   "receive path calls ValidateCounter(counter, RejectAfterMessages) once per authenticated message (covered by C02's co-simulation)"]
    trusted_extra = ["translator harness/cmd/replayast (go/parser over replay/replay.go: renders the bodies of ValidateCounter and Reset as "
                     "terms of the deep-embedded language of Replay/Ast.v, constants evaluated from the file's const declarations; whatever it "
                     "does not recognise becomes an *Unknown node on which the interpreter stops) and the interpreter's reading of Go "
                     "(uint64 + - << wrap mod 2^64; >> & | on N; notes/C05-ast.md)",
                     "Base/Ints.v: primitive Uint63 literals carry counters in generated case files only"]

    def __init__(self):
        self.dir = os.path.join(vlib.OUT, "C05")
        # translator G2: the bodies of ValidateCounter / Reset, regenerated from the source on every run
        self.translators = [lambda: vlib.gen_file("replayast", os.path.join("Gen", "ReplayAst.v"), ["-repo", vlib.REPO])]

    def model_search(self, broken):
        """Replay/AstProofs.v (interpreted source == model, all inputs) no longer checks: compare the interpreted
        source with the set specification on the grid of Replay/AstGrid.v (15 prefixes x 31 counters)."""
        import re
        d = os.path.join(self.dir, "modelsearch")
        os.makedirs(d, exist_ok=True)
        open(os.path.join(d, "Search.v"), "w").write(
            "From Coq Require Import String.\n"
            "From WG Require Import Base.Prelude Gen.Constants Replay.Model Replay.Spec Replay.Ast Gen.ReplayAst Replay.AstGrid.\n"
            "Definition w := Eval vm_compute in (firstn 5 grid_diffs, g_prefixes, g_counters).\nPrint w.\n")
        rc, o = vlib.sh(["timeout", "600", "coqc", "-Q", os.path.join(vlib.COQ, "theories"), "WG", "Search.v"], cwd=d)
        if rc != 0:
            return None
        flat = " ".join(o.split())
        m = re.search(r"w = \(\[(.*?)\], (\[\[.*?\]\]), (\[[^\[\]]*\])\)", flat)
        if not m:
            return None
        diffs = [tuple(int(x) for x in t) for t in re.findall(r"\((\d+)%N, (\d+)%N, (\d+)%N\)", m.group(1))]
        diffs = [t for t in diffs if t[2] == 1]     # 0 = the interpreter stopped: not a behaviour of the code
        if not diffs:
            return None
        prefixes = [[int(x) for x in re.findall(r"(\d+)%N", p)] for p in re.findall(r"\[([^\[\]]*)\]", m.group(2)[1:-1])]
        counters = [int(x) for x in re.findall(r"(\d+)%N", m.group(3))]
        ip, ic, _ = diffs[0]
        hist = prefixes[ip] + [counters[ic]]
        return {"signature": "interpreted-source-differs-from-the-set-specification",
                "history_of_counters_validated_from_the_empty_filter": hist, "limit": 2**64 - 2**13 - 1,
                "what": "the last verdict (or an earlier one) of the source as regenerated from the tree under test differs from "
                        "the set specification Replay.Spec.sstep",
                "replay": "coqc -Q coq/theories WG out/C05/modelsearch/Search.v ; on the implementation: replay.Filter.ValidateCounter "
                          "over the same counters (harness/cmd/c05 -replay)"}

    def _aux386(self):
        """cmd/c05w (the filter alone) built for GOARCH=386: the package's word-size assumptions."""
        out = os.path.join(vlib.BIN, "c05w-386")
        if not getattr(self, "_aux_built", False):
            os.makedirs(vlib.BIN, exist_ok=True)
            with vlib.Lock("go"):
                rc, o = vlib.sh(["go", "build", "-tags", "verif", "-o", out, "./cmd/c05w"], cwd=vlib.HARNESS,
                                env=dict(vlib.GOENV, GOARCH="386", CGO_ENABLED="0"), timeout=900)
            if rc != 0:
                raise CheckError("K.build.c05w-386", "replay package does not build for GOARCH=386:\n" + o)
            self._aux_built = True
        return out

    def _run_go(self, args):
        exe = vlib.build_go("c05")
        args = args + ["-aux386", self._aux386()]
        rc, o = vlib.sh([exe] + args, cwd=vlib.ROOT, timeout=600)
        if rc != 0:
            raise CheckError("K.C05.driver", o)
        meta = json.load(open(os.path.join(self.dir, "cases.json")))
        files = [os.path.join(self.dir, s["file"]) for s in meta["shards"]]
        self.shards = meta["shards"]
        return files, meta["cases"]

    def generate(self, seed, tier, mult):
        n = (400 if tier == "quick" else 6000) * mult
        ndev = (30 if tier == "quick" else 300) * mult
        shards = 16 if tier == "quick" else 64
        return self._run_go(["-seed", str(seed), "-n", str(n), "-shards", str(shards), "-ndev", str(ndev), "-out", self.dir,
                             "-corpus", os.path.join(vlib.ROOT, "corpus", "C05")])

    def failures(self, outputs, files, cases):
        res = []
        for s, f in zip(self.shards, files):
            bad = vlib.parse_n_tuples(vlib.coq_value(outputs[f], "bad"))
            for (idx, kind, pos) in bad:
                res.append({"case": s["first"] + idx, "kind": kind, "pos": pos})
        return res

    def stats(self, outputs):
        tot = [0] * 6
        for o in outputs.values():
            v = vlib.parse_n_list(vlib.coq_value(o, "st"))
            tot = [a + b for a, b in zip(tot, v)]
        names = ["accepted_ahead", "accepted_within_window", "rejected_duplicate", "rejected_behind_window",
                 "rejected_at_or_over_limit", "reset"]
        return dict(zip(names, tot))

    def run_cases(self, cases):
        d = os.path.join(self.dir, "rerun")
        os.makedirs(d, exist_ok=True)
        inp = os.path.join(d, "in.json")
        json.dump([{"ops": c["ops"], "gen": c.get("gen", "")} for c in cases], open(inp, "w"))
        exe = vlib.build_go("c05")
        rc, o = vlib.sh([exe, "-replay", inp, "-out", d, "-aux386", self._aux386()], cwd=vlib.ROOT, timeout=600)
        if rc != 0:
            raise CheckError("K.C05.driver", o)
        meta = json.load(open(os.path.join(d, "cases.json")))
        files = [os.path.join(d, s["file"]) for s in meta["shards"]]
        outs = vlib.run_case_files(files)
        res = []
        for s, f in zip(meta["shards"], files):
            for (idx, kind, pos) in vlib.parse_n_tuples(vlib.coq_value(outs[f], "bad")):
                res.append({"case": s["first"] + idx, "kind": kind, "pos": pos})
        self.last_rerun = meta["cases"]
        return res

    def shrink_candidates(self, case):
        ops = case["ops"]
        n = len(ops)
        # drop halves, then quarters, then single ops
        chunk = n // 2
        while chunk >= 1:
            for i in range(0, n, chunk):
                cand = ops[:i] + ops[i + chunk:]
                if cand and len(cand) < n:
                    yield {"ops": cand, "gen": case.get("gen", "")}
            chunk //= 2

    def signature(self, case, f):
        g = case.get("gen") or ""
        return "verdict-differs-from-spec" + ("-device" if g == "device" else "-386" if g.endswith("-386") else "")

    def nontrivial(self, c):
        # at least two different verdicts and a counter repeated or out of order
        cs = [o["c"] for o in c["ops"] if not o.get("reset")]
        return len(set(c["obs"])) == 2 and any(a >= b for a, b in zip(cs, cs[1:]))

    def sample(self, c):
        return {"gen": c.get("gen"), "ops": [("Reset" if o.get("reset") else [o["c"], o["l"]]) for o in c["ops"][:12]],
                "observed": c["obs"][:12], "length": len(c["ops"])}


def check(tier, seed):
    return vlib.engine(Prop(), tier, seed)


def replay(path):
    obj = json.load(open(path))
    p = Prop()
    case = obj.get("input") or obj
    fs = p.run_cases([case])
    print(json.dumps({"failures": fs, "observed": p.last_rerun[0]["obs"]}))
    if any(f["kind"] == 2 for f in fs):
        print("VIOLATION property=C05 replay=%s" % path)
        return 1
    return 0
