# C10 — silence toward strangers, cookie mechanism under load: Coq theorems on the slice model
# Cookie/Model.v + co-simulation of the real device against the model and the property checker.
import json, os
import vlib
from vlib import CheckError

STAT_NAMES = ["gate_drop", "mac1_drop", "cookie_reply", "rate_limited", "consumed_under_load",
              "consumed_not_under_load", "payload_rejected", "cookie_reply_consumed", "cookie_reply_rejected",
              "transport_authentic", "transport_rejected", "device_initiation_mac2_zero",
              "device_initiation_with_mac2", "tun_without_initiation", "secret_refreshed", "response_with_mac2", "identity_changed"]


class Prop:
    pid = "C10"
    vo_check = ["theories/Cookie/Check.vo"]
    vo_props = ["theories/Props/C10.vo"]
    k_names = ["cosim(device datagrams, per-peer state writes, cookie-secret epochs == Cookie.Model.step)",
               "natural-load(saturated handshake queue without hook: only cookie replies, bound to source, round trip; under-load period lasts 1 s after the LAST detection; ordinary behaviour again 1.3 s after the episode)",
               "loopback(real conn.StdNetBind on 127.0.0.1/::1 under forced load: cookie = Mac(secret, source ip AND port); cookie of port A refused from port B, accepted from A)"]
    rule = ("scenarios from one PRNG against a real device (sim bind/tun, remote side = ref): every message type and unknown "
            "type words (incl. otherwise well-formed messages of all four types with non-zero reserved bytes, MACs over the bytes as sent), sizes around 32/64/92/148, MAC1 valid/garbage/for another key/over an altered body, MAC2 zero/garbage/"
            "valid/expired (secret shifted 121 s+)/issued to another address/another port/under the previous secret, payload "
            "good/corrupt/replayed/from a stranger, with VerifForceUnderLoad on and off, both handshake roles, cookie replies to the "
            "device (good, wrong key, wrong MAC1, wrong index) and its next initiation; one natural-load scenario per run; "
            "non-trivial = the device emitted a datagram or wrote peer state in at least one step; distinct by plan content")
    assumptions = ["symbolic cryptography: BLAKE2s, XChaCha20-Poly1305 and the random secret are free constructors (equal terms <-> equal bytes)",
                   "the Noise payload is not modelled here: whether it authenticates is part of each datagram's construction descriptor (C03/C06 cover it)",
                   "rate limiter verdict is an oracle input: forced to 'allow' for the first four consultations per address, read off the observation afterwards (C19 covers the limiter)",
                   "queue-length part of IsUnderLoad is exercised only by the natural-load scenario (judged in Go, not by the Coq model)",
                   "ages are exercised with the Verif* shift hooks far from 120 s (<= 110 s / >= 121 s)"]
    trusted_extra = ["harness/cmd/c10 (scenario generator, descriptors, observation of datagrams through ref, fingerprints of VerifPeer/IpcGet)",
                     "/repo/device/verif_c10.go (read-only accessors: cookie generator and checker secret)",
                     "Base/Ints.v: primitive Uint63 literals carry times in generated case files only"]

    def __init__(self):
        self.dir = os.path.join(vlib.OUT, "C10")

    def _load(self, d):
        meta = json.load(open(os.path.join(d, "cases.json")))
        files = [os.path.join(d, s["file"]) for s in meta["shards"]]
        return meta, files

    def _run_go(self, args):
        exe = vlib.build_go("c10")
        rc, o = vlib.sh([exe] + args, cwd=vlib.ROOT, timeout=3000)
        if rc != 0:
            raise CheckError("K.C10.driver", o[-3000:])
        meta, files = self._load(self.dir)
        self.shards = meta["shards"]
        return files, meta["cases"]

    def generate(self, seed, tier, mult):
        n = (130 if tier == "quick" else 1500) * mult
        shards = 8 if tier == "quick" else 32
        files, cases = self._run_go(["-seed", str(seed), "-n", str(n), "-shards", str(shards), "-out", self.dir,
                                     "-corpus", os.path.join(vlib.ROOT, "corpus", "C10")])
        nat = [c["natural"] for c in cases if c.get("natural")]
        lb = [c["loopback"] for c in cases if c.get("loopback")]
        self.extra_coverage = {"natural_load": nat[0] if nat else None,
                               "loopback_stdnetbind": lb[0] if lb else None,
                               "discarded_slow_scenarios": sum(1 for c in cases if not c.get("steps") and not c.get("natural") and not c.get("loopback")),
                               "slow_retries": sum(c.get("slow", 0) for c in cases)}
        return files, cases

    @staticmethod
    def _fails(shards, files, outputs, cases):
        res = []
        for s, f in zip(shards, files):
            for (idx, kind, pos) in vlib.parse_n_tuples(vlib.coq_value(outputs[f], "bad")):
                res.append({"case": s["first"] + idx, "kind": kind, "pos": pos})
        for i, c in enumerate(cases):
            nat = c.get("natural")
            if nat and nat.get("status") == "violation":
                res.append({"case": i, "kind": 2, "pos": 0, "natural": nat.get("detail", "")[:400]})
            lb = c.get("loopback")
            if lb and lb.get("status") == "violation":
                res.append({"case": i, "kind": 2, "pos": 0, "loopback": lb.get("detail", "")[:400]})
        return res

    def failures(self, outputs, files, cases):
        return self._fails(self.shards, files, outputs, cases)

    def stats(self, outputs):
        tot = [0] * len(STAT_NAMES)
        for o in outputs.values():
            v = vlib.parse_n_list(vlib.coq_value(o, "st"))
            tot = [a + b for a, b in zip(tot, v)]
        return dict(zip(STAT_NAMES, tot))

    def run_cases(self, cases):
        d = os.path.join(self.dir, "rerun")
        os.makedirs(d, exist_ok=True)
        inp = os.path.join(d, "in.json")
        json.dump([{"gen": c.get("gen", ""), "plan": c.get("plan") or [], "natural": c.get("natural"), "loopback": c.get("loopback")} for c in cases], open(inp, "w"))
        exe = vlib.build_go("c10")
        rc, o = vlib.sh([exe, "-replay", inp, "-out", d], cwd=vlib.ROOT, timeout=3000)
        if rc != 0:
            raise CheckError("K.C10.driver", o[-3000:])
        meta, files = self._load(d)
        outs = vlib.run_case_files(files)
        self.last_rerun = meta["cases"]
        return self._fails(meta["shards"], files, outs, meta["cases"])

    def shrink_candidates(self, case):
        plan = case.get("plan") or []
        n = len(plan)
        chunk = n // 2
        while chunk >= 1:
            for i in range(0, n, chunk):
                cand = plan[:i] + plan[i + chunk:]
                if cand and len(cand) < n:
                    yield {"gen": case.get("gen", ""), "plan": cand}
            chunk //= 2

    def signature(self, case, f):
        if case.get("natural") or f.get("natural"):
            return "natural-load"
        if case.get("loopback") or f.get("loopback"):
            return "loopback-stdnetbind"
        steps = case.get("steps") or []
        pos = f.get("pos", 0)
        if pos >= len(steps):
            # shrunk cases carry only the plan: describe the last message step
            pl = [p for p in case.get("plan", []) if p.get("op") == "msg"]
            p = pl[-1] if pl else {}
            return "msg:%s/%s/%s/%s" % (p.get("typ"), p.get("mac1"), p.get("mac2"), p.get("content"))
        s = steps[pos]
        p = s["plan"]
        kinds = ",".join(sorted(x.split("->")[0] for x in (s.get("outs") or [])))
        return "%s:%s/%s/%s/%s=>[%s]chg%d" % (p.get("op"), p.get("typ"), p.get("mac1"), p.get("mac2"), p.get("content"),
                                             kinds, len(s.get("chg") or []))

    def nontrivial(self, c):
        if c.get("natural"):
            return c["natural"].get("status") == "ok"
        if c.get("loopback"):
            return c["loopback"].get("status") == "ok"
        return any((s.get("outs") or s.get("chg")) for s in (c.get("steps") or []))

    def sample(self, c):
        if c.get("natural"):
            return {"gen": c["gen"], "natural": c["natural"]}
        if c.get("loopback"):
            return {"gen": c["gen"], "loopback": c["loopback"]}
        return {"gen": c.get("gen"), "steps": [{"event": s["event"][:200], "observed": s.get("outs"), "changed_peers": s.get("chg")}
                                               for s in (c.get("steps") or [])[:6]], "length": len(c.get("steps") or [])}


def check(tier, seed):
    return vlib.engine(Prop(), tier, seed)


def replay(path):
    obj = json.load(open(path))
    p = Prop()
    case = obj.get("input") or obj
    fs = p.run_cases([case])
    r = p.last_rerun[0]
    print(json.dumps({"failures": fs, "natural": r.get("natural"), "loopback": r.get("loopback"),
                      "observed": [{"event": s["event"], "outs": s.get("outs"), "chg": s.get("chg")} for s in (r.get("steps") or [])]})[:6000])
    if any(f["kind"] == 2 for f in fs):
        print("VIOLATION property=C10 replay=%s" % path)
        return 1
    return 0
