# C03 — handshake is wire-compatible Noise_IKpsk2 and mutually authenticating:
# symbolic proofs (Coq) + co-simulation of the real device against package ref.
import json, os
import vlib
from vlib import CheckError

STAT_NAMES = ["initiations_answered", "initiations_refused", "responses_accepted", "responses_refused",
              "data_accepted", "data_refused", "device_initiations", "ref_verdict_ok", "ref_verdict_failed", "restarts", "cookie_replies", "key_changes", "cookie_ageings"]


class Prop:
    pid = "C03"
    vo_check = ["theories/Noise/Check.vo"]
    vo_props = ["theories/Props/C03.vo"]
    k_names = ["handshake(device co-simulated against ref == Noise.Model.dev_step against Noise.Paper parties)",
               "wire(device-emitted initiation/response bytes decode with Wire.Codec to the fields ref parsed)"]
    rule = ("handshake scenarios from one PRNG, 24 templates (Down/Up right after the device itself sent a handshake message, the "
            "RekeyTimeout throttle left as the device set it; device forced under load: its cookie reply must open at the initiator, "
            "retry with MAC2 completes; every device initiation's timestamp decoded as TAI64N of now and monotone per peer; private-key change scheduled inside the handshake worker between "
            "ConsumeMessageInitiation and SendHandshakeResponse via the device.Logger callback; UAPI update_only for an unknown key, then restart and an initiation "
            "by that key; cookie expiry: authentic cookie reply, 50 s / 121 s pass via "
            "VerifShiftPeerCookie, then initiations and responses; the last three: private-key rotation with configured peers followed "
            "by handshakes in both roles under the new identity and refused initiations for the old one; peers configured before any "
            "private key; before those: the last five: device Down/Up between handshakes in both roles with "
            "non-zero / mismatching psk; unauthentic cookie replies -- garbage, wrong key, wrong or outdated MAC1 as associated "
            "data, right receiver index -- before a retransmitted initiation and before a response; an authentic cookie reply): ref initiates / device initiates (TUN or hook) x psk "
            "{zero, random, mismatching in three ways} x identity {configured, unconfigured, the device's own key} x "
            "initiations built or MACed for another responder key, responses from a party that is not the addressed peer, "
            "equal/older timestamps, a second initiation before the first completes, answers to an older device "
            "initiation, both sides initiating at once, re-keying over a live session, 2-4 peers interleaved at random; "
            "after every exchange one data packet each way.  non-trivial = at least one completed and one refused "
            "exchange, or data accepted in both directions; distinct by content hash of script + observations")
    assumptions = ["symbolic cryptography: equal terms <=> equal bytes for X25519, BLAKE2s (hash, MAC, HMAC/HKDF) and "
                   "ChaCha20-Poly1305 as provided by golang.org/x/crypto (DESIGN.md section 6); not an axiom in Coq",
                   "device up, peers running, not under load, no cookie held; the 20 ms flood gap and the 5 s "
                   "RekeyTimeout are moved out of the way with VerifShiftHandshakeTimes before every step; no timer "
                   "fires inside a scenario (milliseconds)",
                   "send counters and the replay window are outside this slice (C04, C05)"]
    trusted_extra = ["package ref (harness/ref): the independent implementation written from white-paper section 5.4",
                     "sim bind/tun, cosim world and the quiescence detector",
                     "Base/Ints.v: primitive Uint63 literals carry raw message bytes in generated case files only",
                     "/repo/device/verif_c03.go (VerifC03Initiate), verif_device.go accessors"]

    def __init__(self):
        self.dir = os.path.join(vlib.OUT, "C03")
        self.extra_coverage = {}

    def _load(self, d):
        meta = json.load(open(os.path.join(d, "cases.json")))
        files = [os.path.join(d, s["file"]) for s in meta["shards"]]
        return meta, files

    def generate(self, seed, tier, mult):
        n = (96 if tier == "quick" else 960) * mult
        shards = 8 if tier == "quick" else 32
        exe = vlib.build_go("c03")
        rc, o = vlib.sh([exe, "-seed", str(seed), "-n", str(n), "-shards", str(shards), "-out", self.dir,
                         "-corpus", os.path.join(vlib.ROOT, "corpus", "C03")], cwd=vlib.ROOT, timeout=1800)
        if rc != 0:
            raise CheckError("K.C03.driver", o)
        meta, files = self._load(self.dir)
        self.shards = meta["shards"]
        self.extra_coverage = {"handshakes": meta["handshakes"], "slow_scenarios_discarded": meta["slow_discarded"],
                               "completed": sum(c["completed"] for c in meta["cases"]),
                               "refused": sum(c["refused"] for c in meta["cases"]),
                               "data_packets_delivered": sum(c["data_ok"] for c in meta["cases"]),
                               "key_changes_inside_handshake_worker": sum(c.get("parked", 0) for c in meta["cases"])}
        return files, meta["cases"]

    @staticmethod
    def _annotate(case, kind, pos):
        f = {"kind": kind, "pos": pos}
        if pos >= 1000:
            f["what"] = "wire-layout"
            pos -= 1000
        else:
            f["what"] = "model-differs" if kind == 1 else "property"
        obs = case.get("obs") or []
        if pos < len(obs):
            o = obs[pos]
            si = o.get("si", 0)
            stp = case["steps"][si] if si < len(case["steps"]) else {}
            f["op"] = stp.get("op")
            pk = case["parties"][stp.get("party", 0)] if stp.get("party", 0) < len(case["parties"]) else {}
            f["party"] = "%s/%s" % (pk.get("kind"), pk.get("psk"))
            f["flags"] = "+".join(x for x in (stp.get("resp_key") and "resp_" + stp["resp_key"], stp.get("mac_key") and "mac_" + stp["mac_key"],
                                              stp.get("ts"), stp.get("which"), stp.get("kind")) if x)
            f["clause"] = Prop._clause(f["kind"], f["what"], stp.get("op"), o, [x.get("event", "") for x in obs[:pos]])
            f["event"] = o.get("event")
            f["observed"] = {"outs": o.get("outs"), "ref": o.get("ref"), "peers": o.get("peers")}
        return f

    @staticmethod
    def _clause(kind, what, op, o, prior=()):
        """Name the clause of the property the observation at the failing step contradicts (best effort)."""
        if what == "wire-layout":
            return "layout"
        outs = o.get("outs") or []
        for d in outs:
            if d and d[0] in (1, 2):
                size, mac1, mac2 = (d[2], d[4], d[5]) if d[0] == 1 else (d[2], d[5], d[6])
                if size != (148 if d[0] == 1 else 92):
                    return "size"
                if mac1 != d[1]:
                    return "mac1-not-under-addressee-key"
                if mac2 == 1 and Prop._cookie_held(prior, d[1]):
                    return "mac2-not-under-held-cookie"
                if mac2 != 1 and not Prop._cookie_held(prior, d[1]):
                    return "mac2-not-zero-absent-cookie"
                if mac2 == 0:
                    return "mac2-not-under-held-cookie"
                if d[0] == 1 and d[6] != d[1]:
                    return "initiation-does-not-open-at-addressed-peer"
                if d[0] == 1 and len(d) > 7 and d[7] != 1:
                    return "timestamp-not-tai64n-of-now-or-goes-backwards"
            if d and d[0] == 3 and d[3] != 1:
                return "cookie-reply-does-not-open-at-initiator(under-load)"
            if d and d[0] == 0:
                return "malformed-or-unopenable-datagram"
            if d and d[0] == 4 and d[3] == 0:
                return "transport-under-keys-nobody-holds"
        has = lambda k: any(d and d[0] == k for d in outs)
        if op == "rinitkey":
            return ("session-under-new-identity-for-initiation-consumed-under-old-key" if has(2)
                    else "key-change-during-initiation")
        if op == "rinitload":
            return "handshake-under-load"
        if op == "rinit":
            if has(2):
                return "response-to-initiation"
            return "no-response-to-initiation"
        if op == "rresp":
            return "response-accepted(initiator)" if has(4) else "response-refused(initiator)"
        if op == "rdata":
            return "data-accepted" if has(5) else "data-refused(mirrored-keys)"
        if op in ("tun", "kick"):
            return "device-sends" if (has(1) or has(4)) else "no-initiation-although-no-keys(initiator-role)"
        return op or "?"

    @staticmethod
    def _cookie_held(prior, peer):
        """Best effort: was a well-formed cookie reply (sealed, peer's key, MAC1 of the message it answers) the last
        cookie-relevant event for this peer, with no 121 s ageing since?"""
        held = False
        for ev in prior:
            w = ev.split()
            if w[0] == "cookie" and len(w) == 6 and int(w[1]) == peer:
                if w[4] == "0" and w[2] == w[3]:
                    held = True
            elif w[0] == "age" and int(w[1]) > 120:
                held = False
        return held

    def _fails(self, outputs, shards, files, cases):
        res = []
        for s, f in zip(shards, files):
            for (idx, kind, pos) in vlib.parse_n_tuples(vlib.coq_value(outputs[f], "bad")):
                g = self._annotate(cases[s["first"] + idx], kind, pos)
                g["case"] = s["first"] + idx
                res.append(g)
        return res

    def failures(self, outputs, files, cases):
        return self._fails(outputs, self.shards, files, cases)

    def stats(self, outputs):
        tot = [0] * len(STAT_NAMES)
        for o in outputs.values():
            v = vlib.parse_n_list(vlib.coq_value(o, "st"))
            tot = [a + b for a, b in zip(tot, v)]
        return dict(zip(STAT_NAMES, tot))

    def run_cases(self, cases):
        d = os.path.join(self.dir, "rerun")
        os.makedirs(d, exist_ok=True)
        inp = os.path.join(d, "in.json")
        json.dump([{"parties": c["parties"], "steps": c["steps"], "gen": c.get("gen", "replay"), "nopriv": bool(c.get("nopriv"))}
                   for c in cases], open(inp, "w"))
        exe = vlib.build_go("c03")
        rc, o = vlib.sh([exe, "-replay", inp, "-out", d], cwd=vlib.ROOT, timeout=1800)
        if rc != 0:
            raise CheckError("K.C03.driver", o)
        meta, files = self._load(d)
        outs = vlib.run_case_files(files)
        self.last_rerun = meta["cases"]
        return self._fails(outs, meta["shards"], files, meta["cases"])

    def shrink_candidates(self, case):
        steps = case["steps"]
        n = len(steps)
        chunk = n // 2
        while chunk >= 1:
            for i in range(0, n, chunk):
                cand = steps[:i] + steps[i + chunk:]
                if cand and len(cand) < n:
                    yield {"parties": case["parties"], "steps": cand, "gen": case.get("gen", ""), "nopriv": bool(case.get("nopriv"))}
            chunk //= 2

    def signature(self, case, f):
        return "%s:%s:%s:%s:%s" % (f.get("what", "property"), f.get("clause") or "-", f.get("op"), f.get("party"), f.get("flags") or "-")

    def nontrivial(self, c):
        return (c["completed"] >= 1 and c["refused"] >= 1) or c["data_ok"] >= 2

    def sample(self, c):
        return {"gen": c.get("gen"), "parties": c["parties"], "steps": c["steps"][:8],
                "observed": [{"event": o["event"], "outs": o["outs"], "ref": o["ref"], "peers": o["peers"]} for o in c["obs"][:4]],
                "handshakes": c["handshakes"], "completed": c["completed"], "refused": c["refused"]}


def check(tier, seed):
    return vlib.engine(Prop(), tier, seed)


def replay(path):
    obj = json.load(open(path))
    p = Prop()
    case = obj.get("input") or obj
    fs = p.run_cases([case])
    got = p.last_rerun[0]
    print(json.dumps({"failures": [{k: f[k] for k in ("kind", "pos", "what", "clause", "op", "party", "flags") if k in f} for f in fs],
                      "observed": [{"event": o["event"], "outs": o["outs"], "ref": o["ref"], "peers": o["peers"]} for o in got["obs"]]}))
    if any(f["kind"] == 2 for f in fs):
        print("VIOLATION property=C03 replay=%s" % path)
        return 1
    return 0
