# C08 — allowed-IPs table = exact longest-prefix-match map.
# Coq: functional trie (AllowedIPs/Trie.v) refines the association-list spec (AllowedIPs/Spec.v) for
# all operation sequences; correspondence on device.AllowedIPs (public API + verif_c08_trie.go).
import json, os, re
import vlib
from vlib import CheckError

WHAT = {0: "concurrent-lookup", 1: "lookup", 2: "per-peer-listing", 3: "shape", 4: "root-not-nil-when-empty", 5: "pointers", 6: "crash", 7: "undecodable-op-or-bad-concurrent-plan"}
OPK = {1: "insert", 2: "remove", 3: "remove-by-peer"}

SWEEP_HEAD = ("From WG Require Import Base.Prelude AllowedIPs.Trie AllowedIPs.Spec AllowedIPs.Check.\n"
              "Definition r := Eval vm_compute in (sweep_shard %d %s probes4 [%s]).\nPrint r.\n")


class Prop:
    pid = "C08"
    vo_check = ["theories/AllowedIPs/Check.vo"]
    vo_props = ["theories/Props/C08.vo"]
    k_names = ["observations(device.AllowedIPs Insert/Remove/RemoveByPeer/Lookup/EntriesForPeer + trie shape + parent pointers == AllowedIPs.Trie model)",
               "sweep(model == specification on every state of the exhaustive small-alphabet enumeration)",
               "concurrent(Lookup racing with Insert/Remove/RemoveByPeer that are unrelated to the probed addresses returns the "
               "specification's owner in every interleaving; RWMutex discipline exercised, not proved)"]
    rule = ("operation histories (Insert, Remove by (prefix, peer), RemoveByPeer) from one PRNG over: a dense family (all prefixes of "
            "length 0..4, all of length 28..32 / 124..128 under 3-4 stems that fork at chosen bits, chains of intermediate lengths "
            "around byte and 64-bit boundaries), random wide prefixes, both families mixed, the 14-prefix x 2-peer alphabet of the "
            "model sweep embedded below a stem (all sequences up to length 1 quick / 2 thorough, random up to 7), long histories "
            "(<=120 quick, <=300 thorough), special address values (the same 32 bits as a.b.c.d/32, ::ffff:a.b.c.d/128, ::a.b.c.d/128 and "
            "their /16-/112, /24-/120 parents with different owners, ::ffff:0:0/96, ::/0, 0.0.0.0/0, all-zero, all-ones, loopback, "
            "link-local, multicast, NAT64, 6to4); every IPv4 probe address is also looked up in its 16-byte IPv4-mapped and "
            "IPv4-compatible form (always in 'special', 15% elsewhere) and vice versa; reassignments, removes with the wrong peer, removes of absent prefixes, host bits set in "
            "30-50% of the prefixes given, remove-everything endings.  Observed after (a subset of) operations: Lookup on first/last/"
            "first-1/last+1/random-inside of every prefix mentioned, EntriesForPeer of every peer, pre-order dump of both roots; "
            "pointer consistency after every operation.  non-trivial = at least 3 operations, a node without owner (fork) existed "
            "at an observation, and at least one effective remove / remove-by-peer / reassignment; distinct by operation sequence.  "
            "Concurrent plans (8 quick / 40 thorough, v4 and v6 alternating): 3 stable prefixes (a nested pair /8>/24, /24>/32, /16>/30, "
            "/1>/9 resp. /32>/64, /64>/128, /48>/65, /1>/63, and one elsewhere) never touched; 1-2 churn goroutines cycle through "
            "insert/remove/remove-by-peer/reassign of prefixes that are not stable and not longer-than-stable around a probe "
            "(goroutine 0 always replaces the ROOT: /0 or the shortest covering prefix, removed per prefix or per peer; others: siblings, "
            "parents, halves, longer prefixes beside a probe, wrong-peer removes of stable prefixes); 4-6 reader goroutines look up "
            "first/last/inside addresses of the stable prefixes for 300 ms (500 ms thorough), GOMAXPROCS >= 4; the plan's operations are "
            "also run sequentially so that Coq confirms the expected owners are the specification's at every step")
    assumptions = ["peers are bare &device.Peer{} objects (only Peer.trieEntries is used by allowedips.go)",
                   "sequential histories run in a single goroutine; concurrency (the RWMutex of AllowedIPs) is exercised only by the "
                   "concurrent plans: look-ups whose answer no concurrent operation can change (theorem "
                   "C08_lookup_stable_under_unrelated_ops is the sequential fact; linearisability itself is tested, not proved)",
                   "EntriesForPeer order (insertion order) is not specified; listings are compared as sets, duplicates are an error"]
    trusted_extra = ["Base/Ints.v: primitive Uint63 literals carry addresses/answers in generated case files only",
                     "/repo/device/verif_c08_trie.go (read-only dump of the trie and pointer-consistency walk, build tag verif)"]

    def __init__(self):
        self.dir = os.path.join(vlib.OUT, "C08")
        self.extra_coverage = {}
        self.sweeps = {}
        self._seen_ops = set()

    # ---- Go driver -------------------------------------------------------------------------
    def _load(self, d):
        meta = json.load(open(os.path.join(d, "cases.json")))
        files = [os.path.join(d, s["file"]) for s in meta["shards"]]
        return files, meta["cases"], meta["shards"]

    def _run_go(self, args, d):
        exe = vlib.build_go("c08")
        rc, o = vlib.sh([exe] + args, cwd=vlib.ROOT, timeout=1800)
        if rc != 0:
            raise CheckError("K.C08.driver", o)
        return self._load(d)

    def generate(self, seed, tier, mult):
        n = (300 if tier == "quick" else 1500) * mult
        shards = 16 if tier == "quick" else 48
        for f in os.listdir(self.dir) if os.path.isdir(self.dir) else []:
            if f.startswith(("cases_C08_", "sweep_C08_")):
                os.unlink(os.path.join(self.dir, f))
        files, cases, self.shards = self._run_go(
            ["-seed", str(seed), "-n", str(n), "-shards", str(shards), "-out", self.dir, "-tier", tier,
             "-exh", "1" if tier == "quick" else "2", "-conc", str((8 if tier == "quick" else 40) * mult),
             "-concms", "300" if tier == "quick" else "500", "-corpus", os.path.join(vlib.ROOT, "corpus", "C08")], self.dir)
        self.sweeps = {}
        if mult == 1 and seed < 1000003:
            files = files + self._sweep_files(tier)
        return files, cases

    def _sweep_files(self, tier):
        """Exhaustive model-vs-spec sweeps (Check.sweep): one file per first operation."""
        plan = []
        if tier == "quick":
            # all sequences up to length 3 over the 58-operation alphabet, split in 8 files
            for k in range(8):
                plan.append(("alpha14", 2, [i for i in range(58) if i % 8 == k], 3, 58))
        else:
            for i in range(58):       # length <= 4 over 14 prefixes x 2 peers
                plan.append(("alpha14", 3, [i], 4, 58))
            for i in range(26):       # length <= 5 over 6 prefixes x 2 peers
                plan.append(("alpha6", 4, [i], 5, 26))
        out = []
        for j, (alpha, depth, first, length, size) in enumerate(plan):
            p = os.path.join(self.dir, "sweep_C08_%d.v" % j)
            with open(p, "w") as f:
                f.write(SWEEP_HEAD % (depth, alpha, ";".join("%d%%N" % i for i in first)))
            self.sweeps[p] = (alpha, length, size, first)
            out.append(p)
        return out

    def _bad(self, outputs, files, shards):
        res = []
        for s, f in zip(shards, files):
            for (idx, kind, pos) in vlib.parse_n_tuples(vlib.coq_value(outputs[f], "bad")):
                res.append({"case": s["cases"][idx], "kind": kind, "pos": pos, "item": pos // 8, "what": WHAT.get(pos % 8, "?")})
        return res

    def failures(self, outputs, files, cases):
        case_files = [f for f in files if f not in self.sweeps]
        res = self._bad(outputs, case_files, self.shards)
        for f in res:
            c = cases[f["case"]]
            if f["what"] == "pointers":
                f["detail"] = c.get("ptr_msg")
            if f["what"] == "crash":
                f["detail"] = c.get("crash_msg")
            if f["what"] == "concurrent-lookup":
                f["detail"] = c.get("conc_res", {}).get("msg")
        # sweeps
        tot = {}
        for p, (alpha, length, size, first) in self.sweeps.items():
            v = vlib.coq_value(outputs[p], "r")
            m = re.match(r'\((\d+)%N, (None|Some .*)\)$', v)
            if not m:
                raise CheckError("K.C08.sweep.parse", v)
            if m.group(2) != "None":
                raise CheckError("K.C08.sweep", "model and specification disagree on the state reached by the operations "
                                 "(indices into %s) %s" % (alpha, m.group(2)))
            key = "%s_len%d" % (alpha, length)
            t = tot.setdefault(key, {"alphabet_ops": size, "max_length": length, "states_visited": 0, "files": 0})
            t["states_visited"] += int(m.group(1))
            t["files"] += 1
        if tot:
            for key, t in tot.items():
                # + the empty history, which every shard leaves out
                t["sequences_expected"] = sum(t["alphabet_ops"] ** k for k in range(1, t["max_length"] + 1))
                t["complete"] = t["states_visited"] == t["sequences_expected"]
                if not t["complete"]:
                    raise CheckError("K.C08.sweep.count", json.dumps(t))
            self.extra_coverage = {
                "exhaustive": True,
                "exhaustive_model_sweep": tot,
                "exhaustive_note": "every operation sequence up to max_length over the alphabet (k prefixes x {insert,remove} x 2 peers + 2 "
                                   "remove-by-peer) was run on model and specification inside Coq; at EVERY state: lookups on all 16 "
                                   "addresses, both listings, the representation invariant, nil root iff empty map.  The implementation "
                                   "ran all sequences up to length 1 (quick) / 2 (thorough) of the same alphabet embedded at /28../32, "
                                   "plus random longer ones (generator tiny4/tiny6).",
                "states": sum(t["states_visited"] for t in tot.values()),
            }
        conc = [c for c in cases if c.get("conc")]
        if conc:
            self.extra_coverage = dict(self.extra_coverage, concurrent={
                "plans": len(conc), "plans_run": sum(1 for c in conc if c.get("conc_res", {}).get("ran")),
                "lookups_during_churn": sum(c.get("conc_res", {}).get("lookups", 0) for c in conc),
                "churn_operations": sum(c.get("conc_res", {}).get("churn_ops", 0) for c in conc),
                "wrong_answers": sum(c.get("conc_res", {}).get("wrong", 0) for c in conc),
                "gomaxprocs": max([c.get("conc_res", {}).get("gomaxprocs", 0) for c in conc] + [0]),
                "note": "plans_run < plans means the machine has fewer than 2 CPUs and the concurrent part was skipped"})
        return res

    def stats(self, outputs):
        names = ["insert_into_empty_root", "insert_reassign_exact", "insert_new_leaf_below", "insert_new_node_above",
                 "insert_glue_at_fork", "remove_no_such_entry", "remove_other_owner", "remove_node_keeps_two_children",
                 "remove_node_replaced_by_only_child", "remove_leaf_parent_stays", "remove_leaf_glue_parent_collapses",
                 "remove_by_peer_with_entries", "remove_by_peer_without_entries", "operation_empties_a_root"]
        tot = [0] * len(names)
        for f, o in outputs.items():
            if f in self.sweeps:
                continue
            v = vlib.parse_n_list(vlib.coq_value(o, "st"))
            tot = [a + b for a, b in zip(tot, v)]
        return dict(zip(names, tot))

    # ---- re-running explicit cases (shrinking, replay) ---------------------------------------
    def run_cases(self, cases):
        d = os.path.join(self.dir, "rerun")
        os.makedirs(d, exist_ok=True)
        inp = os.path.join(d, "in.json")
        json.dump([dict({"ops": c["ops"], "npeers": c.get("npeers", 0), "probes": c.get("probes") or [], "init": c.get("init", False),
                         "gen": c.get("gen", "replay")}, **({"conc": c["conc"]} if c.get("conc") else {})) for c in cases], open(inp, "w"))
        # concurrent plans are re-run 5x longer: the interleaving is not reproducible, the plan is
        files, out_cases, shards = self._run_go(["-replay", inp, "-out", d, "-concx", "5"], d)
        outs = vlib.run_case_files(files)
        self.last_rerun = out_cases
        res = self._bad(outs, files, shards)
        for f in res:
            c = out_cases[f["case"]]
            if f["what"] == "pointers":
                f["detail"] = c.get("ptr_msg")
            if f["what"] == "crash":
                f["detail"] = c.get("crash_msg")
            if f["what"] == "concurrent-lookup":
                f["detail"] = c.get("conc_res", {}).get("msg")
        return res

    def shrink_candidates(self, case):
        if case.get("conc"):
            return      # a concurrent plan is replayed as a whole (ops, probes and plan belong together)
        ops = case["ops"]
        n = len(ops)
        base = {k: case[k] for k in ("npeers", "probes", "init") if k in case}
        chunk = n // 2
        while chunk >= 1:
            for i in range(0, n, chunk):
                cand = [dict(o) for o in ops[:i] + ops[i + chunk:]]
                if cand and len(cand) < n:
                    cand[-1]["o"] = True
                    yield dict(base, ops=cand)
            chunk //= 2

    def signature(self, case, f):
        # what failed + the kind of the last operation before the failing observation
        if f["pos"] % 8 == 0:
            return "concurrent-lookup-wrong-during-churn"
        ops = case["ops"]
        item, k = 0, None
        if case.get("init"):
            item = 1
        for o in ops:
            if item > f["pos"] // 8:
                break
            k = o["k"]
            item += 1 + (1 if o.get("o") else 0)
        return "%s-wrong-after-%s" % (WHAT.get(f["pos"] % 8, "x"), OPK.get(k, "nothing"))

    def nontrivial(self, c):
        ft = c.get("feat", {})
        if c.get("conc"):
            cr = c.get("conc_res", {})
            if not (cr.get("ran") and cr.get("lookups", 0) > 1000 and cr.get("churn_ops", 0) > 100):
                return False
        if not (len(c["ops"]) >= 3 and ft.get("glue") and (ft.get("removed", 0) + ft.get("bypeer", 0) + ft.get("reassign", 0)) >= 1):
            return False
        key = json.dumps([[o["k"], o.get("f"), o.get("c"), o["p"], o.get("a")] for o in c["ops"]])
        if key in self._seen_ops:
            return False
        self._seen_ops.add(key)
        return True

    def sample(self, c):
        def show(o):
            if o["k"] == 3:
                return "RemoveByPeer(p%d)" % o["p"]
            return "%s(%s/%d, p%d)" % ("Insert" if o["k"] == 1 else "Remove", o["a"], o["c"], o["p"])
        last = c["obs"][-1] if c.get("obs") else {}
        return {"gen": c.get("gen"), "length": len(c["ops"]), "peers": c.get("npeers"), "ops": [show(o) for o in c["ops"][:14]],
                "observations": len(c.get("obs", [])), "probe_addresses": len(c.get("probes", [])),
                "last_lookups(probe,answer;0=nil)": list(zip(c.get("probes", [])[:10], last.get("look", [])[:10])),
                "features": c.get("feat"),
                **({"concurrent_plan": {"stable": [show(o) for o in c["conc"]["stable"]],
                                        "churn_goroutines": [[show(o) for o in l] for l in c["conc"]["churn"]],
                                        "probes(addr, owner)": [(p["a"], p["want"]) for p in c["conc"]["probes"]],
                                        "readers": c["conc"]["readers"], "result": c.get("conc_res")}} if c.get("conc") else {})}


def check(tier, seed):
    return vlib.engine(Prop(), tier, seed)


def replay(path):
    obj = json.load(open(path))
    p = Prop()
    case = obj.get("input") or obj
    if case is None or "ops" not in case:
        print(json.dumps({"note": "replay file carries no input (obligation-level report)", "obligations": obj.get("obligations")}))
        return 1
    fs = p.run_cases([case])
    r = p.last_rerun[0]
    print(json.dumps({"failures": fs, "ptr_msg": r.get("ptr_msg"), "crash_msg": r.get("crash_msg"), "concurrent": r.get("conc_res"),
                      "last_lookups": r["obs"][-1]["look"] if r.get("obs") else None}))
    if any(f["kind"] == 2 for f in fs):
        print("VIOLATION property=C08 replay=%s" % path)
        return 1
    return 0
