# C17 — TUN read-side segmentation (GSO split, checksum offload): Coq model + theorems,
# correspondence of the model and evaluation of the specification on tun.handleVirtioRead.
import base64, json, os
import vlib
from vlib import CheckError

CLAUSES = {
    1: "segment-length", 2: "segment-payload", 3: "ip-length-field", 4: "ipv4-id-not-consecutive",
    5: "ip-header-bytes-changed", 6: "ipv4-header-checksum-invalid", 7: "tcp-sequence-number",
    8: "tcp-fin-psh-flags", 9: "transport-header-bytes-changed", 10: "udp-length-field",
    11: "transport-checksum-invalid", 12: "udp-checksum-zero-not-mangled",
    20: "segment-count", 21: "error-value",
    31: "csum-completion-length", 32: "csum-completion-bytes-changed", 33: "csum-completion-checksum-invalid",
    34: "udp-checksum-zero-not-mangled", 35: "passthrough-changed",
    40: "panic-on-well-formed-input", 41: "wrote-outside-reported-bytes",
    50: "checksum-not-rfc1071", 51: "checksum-not-rfc1071", 52: "pseudo-header-checksum-not-rfc1071",
}
STAT_NAMES = ["ok", "err_short_buffer", "err_overflows_bufs_element", "err_unsupported_gso_type",
              "err_version_vs_gso_type", "err_invalid_ip_version", "err_packet_too_short", "err_tcp_header_len",
              "err_len_lt_hdrlen", "err_hdrlen_lt_csumstart", "err_checksum_offset_end", "err_too_many_segments",
              "panic", "gso_none_plain", "gso_none_needs_csum", "super_tcp4", "super_tcp6", "super_udp4",
              "super_udp6", "spec_evaluated_super", "spec_evaluated_csum_completion", "segments_checked_by_spec",
              "direct_checksum_calls", "direct_checksum_calls_with_carry_in_tail_step", "direct_pseudo_header_calls"]


class Prop:
    pid = "C17"
    vo_check = ["theories/Offload/GsoCheck.vo", "theories/Gen/CsumAst.vo"]
    vo_props = ["theories/Props/C17.vo"]
    k_names = ["checksum(tun.checksumNoFold/checksum/pseudoHeaderChecksumNoFold == Offload.Checksum mirror and == RFC 1071 spec, "
               "64-bit initial values at the edge of 2^64 x every tail length)",
               "read(tun.NativeTun.Read in vnet-hdr mode over a socketpair == handle_virtio_read of exactly the bytes written, "
               "reads up to 10 + 65535 bytes)",
               "concurrent(3 goroutines in NativeTun.Read on one device, alone and while 2 goroutines run NativeTun.Write/GRO: "
               "every Read result == handle_virtio_read of the super-packet it claims, each super-packet returned exactly once)",
               "segments(tun.handleVirtioRead == Offload.Gso.handle_virtio_read, byte for byte, errors and panics included)",
               "spec(Offload.GsoSpec clauses evaluated in Coq on the segments tun.handleVirtioRead produced)"]
    rule = ("virtio-net reads from one PRNG: TCPv4/TCPv6/UDP super-packets (IPv4 options 0..40, TCP options 0..40, "
            "gso_size {1,2,3,8,100,536,1200,1448,1460,8948,65495,65535,random}, payload = exact multiples / +-1 / short "
            "tails / up to the 64 KiB read buffer, seq around 2^32, all flag bytes, IPv4 IDs around 2^16, buffer counts "
            "1..128 incl. nseg-1/nseg/nseg+1, offsets 0..64), GSO_NONE with and without NEEDS_CSUM, 12 kinds of malformed "
            "header; super-packets crafted so that the 64-bit checksum accumulator wraps in the 4/2/1-byte tail steps; "
            "direct checksum calls: initial values {0,1,2^16-1,2^32-1,2^32,2^63,2^64-1,2^64-2,2^64-2^16,2^64-256,... and "
            "their byte swaps, random near 2^64} x lengths 0..40 and around 64/128/256/1500/9001 x {0xff, 0, random}; non-trivial = at least two segments produced, or an error/too-many-segments path, or a checksum "
            "completion; distinct by content hash of the input")
    assumptions = ["little-endian host (binary.NativeEndian in tun/checksum.go and virtioNetHdr.decode)",
                   "well-formed input (wf_super): what the kernel delivers - |packet| <= 65535, hdrLen <= |packet|, gso_size >= 1, "
                   "csum_start = IP header length (IPv4: IHL*4 >= 20, IPv6: 40, no extension headers), csum_offset 16 (TCP) / 6 (UDP)",
                   "every output buffer has room for a whole segment (len(bufs[i]) - offset >= hdrLen + gso_size), as device.RoutineReadFromTUN provides for MTU-sized segments",
                   "checksum completion (GSO_NONE + NEEDS_CSUM): the checksum field holds the folded pseudo-header sum (CHECKSUM_PARTIAL contract)"]
    trusted_extra = ["translator harness/cmd/csumast (go/parser: bodies of checksumNoFold, checksum, pseudoHeaderChecksumNoFold as a deep-embedded AST; binary.NativeEndian read as little endian (amd64/arm64 hosts); unrecognised constructs become Unknown nodes; notes/C17-csum-ast.md)",
                     "Base/Ints.v: primitive Uint63 literals carry packet bytes in generated case files only",
                     "x/sys/unix VIRTIO_NET_HDR_* / IPPROTO_* values are spelled out in Offload/Gso.v and compared with the compiler's values in every case file (tun/verif_c17_linux.go)"]

    def __init__(self):
        self.dir = os.path.join(vlib.OUT, "C17")
        # translator G2: function bodies regenerated from the source on every run
        self.translators = [lambda: vlib.gen_file("csumast", os.path.join("Gen", "CsumAst.v"), ["-repo", vlib.REPO])]

    def _load(self, d):
        meta = json.load(open(os.path.join(d, "cases.json")))
        files = [os.path.join(d, s["file"]) for s in meta["shards"]]
        return meta, files

    def _run_go(self, args):
        exe = vlib.build_go("c17")
        rc, o = vlib.sh([exe] + args, cwd=vlib.ROOT, timeout=900)
        if rc != 0:
            raise CheckError("K.C17.driver", o)

    def generate(self, seed, tier, mult):
        n = (420 if tier == "quick" else 6000) * mult
        shards = 16 if tier == "quick" else 64
        args = ["-seed", str(seed), "-n", str(n), "-shards", str(shards), "-out", self.dir,
                "-corpus", os.path.join(vlib.ROOT, "corpus", "C17")]
        if tier != "quick":
            args.append("-thorough")
        if os.environ.get("VERIF_C17_EXTHDR"):
            args.append("-exthdr")
        self._run_go(args)
        meta, files = self._load(self.dir)
        self.shards = meta["shards"]
        return files, meta["cases"]

    @staticmethod
    def _fails(shards, files, outputs):
        res = []
        for s, f in zip(shards, files):
            for (idx, kind, pos) in vlib.parse_n_tuples(vlib.coq_value(outputs[f], "bad")):
                res.append({"case": s["idx"][idx] if idx < len(s["idx"]) else 0, "kind": kind, "pos": pos,
                            "what": describe(kind, pos)})
        res.sort(key=lambda f: (f["case"], f["kind"]))
        return res

    def failures(self, outputs, files, cases):
        return self._fails(self.shards, files, outputs)

    def stats(self, outputs):
        tot = [0] * len(STAT_NAMES)
        for o in outputs.values():
            v = vlib.parse_n_list(vlib.coq_value(o, "st"))
            tot = [a + b for a, b in zip(tot, v)]
        return dict(zip(STAT_NAMES, tot))

    def run_cases(self, cases):
        d = os.path.join(self.dir, "rerun")
        os.makedirs(d, exist_ok=True)
        for f in os.listdir(d):
            if f.startswith("cases_C17_"):
                os.unlink(os.path.join(d, f))
        inp = os.path.join(d, "in.json")
        keys = ("sizes_extra", "conc", "gseed", "type", "init", "data", "proto", "src", "dst", "tlen", "raw", "nbufs", "offset", "room")
        # an observation made in a concurrent pass is re-judged as recorded (the harness keeps it)
        obs = ("panic", "touched", "n", "err", "segs", "gen", "info")
        json.dump([{k: c[k] for k in keys + (obs if c.get("conc") else ()) if k in c} for c in cases], open(inp, "w"))
        self._run_go(["-replay", inp, "-out", d, "-shards", str(min(16, max(1, len(cases))))])
        meta, files = self._load(d)
        outs = vlib.run_case_files(files)
        self.last_rerun = meta["cases"]
        return self._fails(meta["shards"], files, outs)

    def shrink_candidates(self, case):
        if case.get("type") == "ck":
            d = base64.b64decode(case.get("data") or "")
            for keep in (len(d) // 2, len(d) - 8, len(d) - 1):
                if 0 <= keep < len(d):
                    yield dict(case, data=base64.b64encode(d[len(d) - keep:]).decode())
            return
        if case.get("type") == "ph" or case.get("conc"):
            return      # an observation of a concurrent pass is not reproduced by a call on its own
        raw = base64.b64decode(case["raw"])
        base = {"nbufs": case["nbufs"], "offset": case["offset"], "room": case["room"]}
        if case.get("sizes_extra"):
            base["sizes_extra"] = case["sizes_extra"]
        if case.get("type"):
            base["type"] = case["type"]      # "rd": keep going through NativeTun.Read
        seen = set()

        def cand(r, nb=None):
            c = dict(base, raw=base64.b64encode(r).decode())
            if nb is not None:
                c["nbufs"] = nb
            key = (c["raw"], c["nbufs"])
            if key in seen or (r == raw and c["nbufs"] == case["nbufs"]):
                return None
            seen.add(key)
            return c
        out = []
        if len(raw) > 10:
            cs = raw[6] | raw[7] << 8
            gso = raw[4] | raw[5] << 8
            # cut the payload (keeps a super-packet well-formed: its length fields are rewritten per segment)
            n = len(raw)
            for keep in (10 + cs + 21, 10 + cs + 61, 10 + cs + 60 + gso + 1, 10 + cs + 60 + 2 * gso + 1, n // 2, n * 3 // 4, n - gso, n - 1):
                if 10 < keep < n:
                    out.append(cand(raw[:keep]))
            # smaller gso_size with fewer bytes
            if gso > 8:
                r2 = bytearray(raw[:min(n, 10 + cs + 60 + 24)])
                r2[4], r2[5] = 8, 0
                out.append(cand(bytes(r2)))
        for nb in (1, 2, 3, case["nbufs"] // 2, case["nbufs"] - 1):
            if 1 <= nb < case["nbufs"]:
                out.append(cand(raw, nb))
        for c in out:
            if c:
                yield c

    def signature(self, case, f):
        s = describe(f["kind"], f["pos"], short=True)
        return ("concurrent-read:" + s) if case.get("conc") else s

    def nontrivial(self, c):
        if c.get("type") in ("ck", "ph"):
            return True
        return bool(c.get("panic")) or c.get("err", 0) != 0 or len(c.get("segs") or []) >= 2 or \
            (c.get("info") or {}).get("kind") == "none-csum"

    def sample(self, c):
        if c.get("type") in ("ck", "ph"):
            return {k: c.get(k) for k in ("gen", "type", "init", "data", "proto", "src", "dst", "tlen", "obs_nofold", "obs_ck")}
        return {"gen": c.get("gen"), "info": c.get("info"), "raw_len": len(base64.b64decode(c["raw"])),
                "virtio_hdr": base64.b64decode(c["raw"])[:10].hex(), "nbufs": c["nbufs"], "len_sizes": c["nbufs"] + c.get("sizes_extra", 0), "offset": c["offset"],
                "observed": {"n": c.get("n"), "err": c.get("err_msg") or None, "panic": c.get("panic_msg") or None,
                             "segment_sizes": [len(base64.b64decode(s)) for s in (c.get("segs") or [])][:8]}}


def describe(kind, pos, short=False):
    if kind == 2:
        seg, clause = divmod(pos, 100)
        name = CLAUSES.get(clause, "clause-%d" % clause)
        return name if short else "specification clause %r fails on segment %d" % (name, seg)
    if pos >= 2 ** 40:
        x = pos - 2 ** 40
        name = {1: "model-panics-impl-does-not", 2: "impl-panics-model-does-not", 3: "count-differs", 99: "abi-constants-differ",
                200: "checksumNoFold-differs", 201: "checksum-differs", 202: "pseudoHeaderChecksumNoFold-differs"}.get(
            x, "error-class-differs(model=%d)" % (x - 100))
        return "model:" + name if short else "implementation differs from the model: " + name
    seg, off = divmod(pos, 65536)
    return "model:bytes-differ" if short else "implementation differs from the model at segment %d byte %d" % (seg, off)


def check(tier, seed):
    return vlib.engine(Prop(), tier, seed)


def replay(path):
    obj = json.load(open(path))
    p = Prop()
    case = obj.get("input") or obj
    if isinstance(case, list):
        case = case[0]
    fs = p.run_cases([case])
    o = p.last_rerun[0]
    print(json.dumps({"failures": fs, "observed": p.sample(o)}))
    if any(f["kind"] == 2 for f in fs):
        print("VIOLATION property=C17 replay=%s" % path)
        return 1
    return 0
