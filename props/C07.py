# C07 — session-key lifecycle: Coq slice model of the three keypair slots + index table with the
# property's clauses proved over all event lists; co-simulation of the real device (real handshakes
# in both roles against the harness's own WireGuard peer, shifted key ages) compared step by step.
import json, os
import vlib
from vlib import CheckError

STAT_NAMES = ["completed_as_initiator", "response_refused", "completed_as_responder",
              "data_accepted_previous", "data_accepted_current", "data_accepted_next_confirmation",
              "data_refused_index_not_honoured", "data_refused_older_than_180s",
              "send_under_current", "send_refused_no_or_expired_key", "rekey_after_120s_on_send",
              "rekey_after_165s_on_receive", "initiation_suppressed_by_5s_spacing", "initiation_sent",
              "ticks", "confirmation_with_packets_staged", "forged_under_next_index", "forged_under_current_or_previous_index",
              "forged_under_index_not_honoured", "replayed_message", "restart", "restart_with_unconfirmed_next",
              "keepalive_sent_under_current", "rekey_after_120s_on_keepalive_only_send", "keepalive_with_no_or_expired_key",
              "handshake_attempt_abandoned", "abandoned_while_a_key_is_current",
              "response_with_event_inside_its_processing_window", "message_accepted_inside_the_window",
              "initiation_created_inside_the_window_response_void"]

CLAUSES = {1: "index-table-is-not-the-three-slots", 2: "sent-under-wrong-unconfirmed-or-expired-key",
           3: "responder-completion", 4: "initiator-completion-rotation", 5: "slots-changed-without-completion",
           6: "receive-clause", 7: "send-clause", 8: "slots-changed-on-send", 9: "slots-changed-on-initiate",
           10: "slots-changed-on-tick", 11: "output-on-tick", 12: "forged-message-not-inert", 13: "replayed-message-not-inert", 14: "keys-or-indices-survive-restart",
           15: "send-clause(keepalive)", 16: "slots-changed-on-keepalive", 17: "abandoned-attempt-not-inert"}


class Prop:
    pid = "C07"
    vo_check = ["theories/Keypairs/Check.vo", "theories/Gen/FreshAst.vo"]
    vo_props = ["theories/Props/C07.vo"]
    k_names = ["lifecycle(device.Peer keypairs/index table/handshake index after every event == Keypairs.Model.step)"]
    rule = ("scenarios on a real device (sim bind/tun, own reference peer) from one PRNG: handshakes completed as "
            "initiator and as responder, stale and repeated responses, data under previous/current/next/retired/"
            "never-installed keys with fresh counters, both as data and as KEEPALIVES (zero-length transport messages; acceptance "
            "read off rx_bytes, the slots off VerifPeer), FORGED transport messages (right index of the next/current/previous/"
            "retired key, fresh counter, corrupted tag / ciphertext / garbage / wrong key) and replayed ones, three scenarios "
            "in which REAL time (0.6 s, socket idle) carries a key from 179.5 s past 180 s before a message arrives, interface "
            "Down/Up (Peer.Stop+Start) at every slot configuration followed by probes under the keys just dropped, keepalive-only transmissions (SendKeepalive through the UAPI "
            "persistent-keepalive switch-on), EVENTS INSIDE THE RESPONSE-PROCESSING WINDOW of a handshake worker (between "
            "ConsumeMessageResponse and BeginSymmetricSession: the worker is parked in the harness-owned device.Logger, or at "
            "handshake.mutex inside BeginSymmetricSession; data / keepalive under the old current, previous or a retired key, or a "
            "timer-style SendHandshakeInitiation, is handled there; then the new session is aged past 165 s and used), the retransmit-handshake timer callback (retransmission, and giving up the "
            "attempt, then using the surviving key past 120 s), TUN packets, timer-style initiations, time moved with the "
            "Verif shift hooks to 119/121/164/166/179/181 s of key age and across the 5 s handshake spacing; final "
            "sweep probing every session ever derived; after every event: datagrams emitted (which session opens "
            "them), initiation/response, TUN write, the three slots, the index table, the pending handshake index; "
            "thorough adds the exhaustive enumeration of the property's event kinds to depth 6 (and of an extended "
            "alphabet with short ticks, timer-style initiation, stale/late responses to depth 5) up to the abstract "
            "device state, and depth-40 sequences; non-trivial = at least one completion in each role or a confirmation, and a "
            "refused message; distinct by content hash")
    assumptions = ["one peer; events are injected one at a time with quiescence in between (no concurrent interleavings: C12/C13), except the "
                   "response-processing window, where one event is handled while the handshake worker is parked between its two locked steps",
                   "key ages are moved by the VerifShift hooks in whole seconds; scenarios last < 0.9 s of real time, longer ones are discarded and counted; "
                   "the three idle scenarios shift by 179.5 s and wait in real time, discarded if an age comes within 30 ms of a whole second",
                   "message-count limits (RejectAfterMessages/RekeyAfterMessages), the 20 ms initiation flood limit (neutralised by a hook), cookies and the real-time timers are outside the slice",
                   "C07_model_satisfies_spec (holdsb accepts every model trace) assumes whole-second ticks and fewer than 10^9 - 1 events, the harness's discipline"]
    trusted_extra = ["translator harness/cmd/kkfast (go/parser: bodies of keepKeyFreshSending / keepKeyFreshReceiving as a deep-embedded AST; time.Since(keypair.created) is a recognised primitive (input age); only the sequential decision, the Load/Store race on the flag stays with the window scenarios; notes/C07-fresh-ast.md)",
                     "Base/Ints.v: primitive Uint63 literals carry the traces in generated case files only",
                     "add-only hook file /repo/device/verif_c07.go (SendHandshakeInitiation as the timers call it, latch/lastSentHandshake accessor, two time shifts)",
                     "harness/ref: the harness's own WireGuard implementation decides which session opens a datagram",
                     "harness/cmd/c07/window.go: the device's public Logger as schedule point and peer.handshake.mutex reached through Device.LookupPeer + reflection (read-locked by the harness to park the worker inside BeginSymmetricSession)"]

    def __init__(self):
        self.dir = os.path.join(vlib.OUT, "C07")
        # translator G2: keepKeyFreshSending / keepKeyFreshReceiving regenerated from the source on every run
        self.translators = [lambda: vlib.gen_file("kkfast", os.path.join("Gen", "FreshAst.v"), ["-repo", vlib.REPO])]
        self.extra_coverage = {}

    def _load(self, d):
        meta = json.load(open(os.path.join(d, "cases.json")))
        files = [os.path.join(d, s["file"]) for s in meta["shards"]]
        return meta, files

    def _run_go(self, args, d):
        exe = vlib.build_go("c07")
        rc, o = vlib.sh([exe] + args, cwd=vlib.ROOT, timeout=3000)
        if rc != 0:
            raise CheckError("K.C07.driver", o)
        return self._load(d)

    def generate(self, seed, tier, mult):
        if tier == "quick":
            args = ["-n", str(100 * mult), "-depth", "12", "-shards", "8"]
        else:
            args = ["-n", str(1500 * mult), "-depth", "14", "-nlong", str(300 * mult), "-longdepth", "40",
                    "-exhaustive", "6", "-exhaustive2", "5", "-exhmax", "16000", "-shards", "48"]
        meta, files = self._run_go(["-seed", str(seed), "-out", self.dir,
                                    "-corpus", os.path.join(vlib.ROOT, "corpus", "C07")] + args, self.dir)
        self.shards = meta["shards"]
        self.extra_coverage = {"discarded_scenarios": meta.get("discarded", 0), "enumeration": meta.get("info", {})}
        n = len(meta["cases"])
        if n and meta.get("discarded", 0) > n:
            raise CheckError("K.C07.timing", "more scenarios discarded (%d) than kept (%d): machine too slow for the co-simulation"
                             % (meta["discarded"], n))
        if tier != "quick":
            files = files + [self._model_sweep()]
        return files, meta["cases"]

    def _model_sweep(self):
        """thorough: the specification accepts the model on all sequences to depth 6 / 5 (evaluated in Coq)."""
        p = os.path.join(self.dir, "sweep_C07.v")
        open(p, "w").write(
            "From WG Require Import Base.Prelude Keypairs.Model Keypairs.Spec Keypairs.Check.\n"
            "Local Open Scope N_scope.\n"
            "Definition sweep := Eval vm_compute in (explore alphabet7 6 init sst0, explore alphabet_full 5 init sst0).\n"
            "Print sweep.\n"
            "Definition bad : list (N * N * N) := Eval vm_compute in\n"
            "  (match sweep with (Some _, Some _) => [] | _ => [(0, 2, 999999)] end).\nPrint bad.\n"
            "Definition st : list N := repeat 0 30.\nPrint st.\n")
        return p

    def failures(self, outputs, files, cases):
        res = []
        shard_files = files[:len(self.shards)]
        for s, f in zip(self.shards, shard_files):
            for (idx, kind, pos) in vlib.parse_n_tuples(vlib.coq_value(outputs[f], "bad")):
                res.append({"case": s["first"] + idx, "kind": kind, "pos": pos, "step": pos // 100, "what": pos % 100})
        for f in files[len(self.shards):]:
            if vlib.parse_n_tuples(vlib.coq_value(outputs[f], "bad")):
                raise CheckError("T.C07.model_sweep", "the specification rejects a model trace: " + vlib.coq_value(outputs[f], "sweep"))
            self.extra_coverage["model_sweep"] = vlib.coq_value(outputs[f], "sweep")
        return res

    def stats(self, outputs):
        tot = [0] * 30
        for o in outputs.values():
            v = vlib.parse_n_list(vlib.coq_value(o, "st"))
            if len(v) == 30:
                tot = [a + b for a, b in zip(tot, v)]
        return dict(zip(STAT_NAMES, tot))

    def run_cases(self, cases):
        d = os.path.join(self.dir, "rerun")
        os.makedirs(d, exist_ok=True)
        inp = os.path.join(d, "in.json")
        json.dump([{"evs": c["evs"]} for c in cases], open(inp, "w"))
        meta, files = self._run_go(["-replay", inp, "-out", d], d)
        outs = vlib.run_case_files(files)
        res = []
        for s, f in zip(meta["shards"], files):
            for (idx, kind, pos) in vlib.parse_n_tuples(vlib.coq_value(outs[f], "bad")):
                res.append({"case": s["first"] + idx, "kind": kind, "pos": pos, "step": pos // 100, "what": pos % 100})
        self.last_rerun = meta["cases"]
        return res

    def shrink_candidates(self, case):
        evs = case["evs"]
        n = len(evs)
        chunk = n // 2
        while chunk >= 1:
            for i in range(0, n, chunk):
                cand = evs[:i] + evs[i + chunk:]
                if cand and len(cand) < n:
                    yield {"evs": cand}
            chunk //= 2

    def signature(self, case, f):
        # clause that fails + kind of the event it fails on
        evs = case.get("evs", [])
        step = f.get("step", f["pos"] // 100)
        # after shrinking the failing step is (almost always) the last one
        ev = evs[step]["k"] if step < len(evs) else (evs[-1]["k"] if evs else "?")
        return "%s@%s" % (CLAUSES.get(f["pos"] % 100, "clause%d" % (f["pos"] % 100)), ev)

    def nontrivial(self, c):
        ks = [e["k"] for e in c["evs"]]
        obs = c.get("obs", [])
        completed = any(e["k"] in ("resp", "cr") for e in c["evs"])
        refused = any(e["k"] == "recv" and not o["tun"] for e, o in zip(c["evs"], obs))
        accepted = any(e["k"] == "recv" and o["tun"] for e, o in zip(c["evs"], obs))
        return completed and refused and accepted and "send" in ks

    def sample(self, c):
        def ev(e):
            return e["k"] + ("(%s)" % ",".join(str(e[x]) for x in ("a", "b") if x in e) if ("a" in e or "b" in e) else "")
        return {"gen": c.get("gen"), "events": [ev(e) for e in c["evs"][:14]], "length": len(c["evs"]),
                "last_slots": {k: c["obs"][-1][k] for k in ("prev", "cur", "next")} if c.get("obs") else None}


def check(tier, seed):
    return vlib.engine(Prop(), tier, seed)


def replay(path):
    obj = json.load(open(path))
    p = Prop()
    case = obj.get("input") or obj
    if isinstance(case, list):
        case = case[0]
    fs = p.run_cases([case])
    print(json.dumps({"failures": fs, "observed": p.last_rerun[0]["obs"][-3:]}))
    if any(f["kind"] == 2 for f in fs):
        print("VIOLATION property=C07 replay=%s" % path)
        return 1
    return 0
