# C16 — TUN write-side coalescing (GRO) is lossless: Coq model of handleGRO + kernel segmentation
# specification; correspondence on tun.VerifHandleGRO (byte-exact) and holdsb on the observed output.
import json, os
import vlib
from vlib import CheckError

# specification failure codes of Gro/Check.v spec_code -> signature
CODES = {
    65: "gro-coalesce-past-65535",
    21: "gro-stale-virtio-hdr-after-invalid-csum-item",
    22: "spec-virtio-hdr-not-written",
    20: "spec-passthrough",
    10: "spec-bookkeeping",
    11: "write-failing-call-wrote-something",
    12: "write-path-panic",
    38: "gro-ipv6-flow-label-ignored",
    37: "gro-prepend-drops-psh",
    36: "spec-psh-differs",
    30: "spec-flow-equivalence",
    39: "spec-invalid-checksum-packet-coalesced",
    35: "gro-tcp-ns-flag-lost-in-merge",
    41: "gro-udp-noncandidate-overtaken",
    42: "gro-udp-skipped-datagram-overtaken",
    40: "spec-udp-order",
    51: "spec-descriptor",
    52: "spec-length-fields",
    53: "spec-segment-checksums",
    # the implementation differs from the mirror model although the specification accepts what it did
    # (reported as a failure of its own: the engine prints no VIOLATION for a bare mismatch in a run that
    # also contains a known finding, and C16 runs the scenario of its known finding every time)
    91: "impl-differs-from-model-error-flag",
    92: "impl-differs-from-model-toWrite",
    93: "impl-differs-from-model-written-buffer",
    94: "kernel-spec-differs-from-gsoSplit",
}
STAT_NAMES = ["packets", "noop", "inserted", "coalesced_append", "coalesced_prepend", "tcp_gso_buffers",
              "udp_gso_buffers", "error_returns"]


class Prop:
    pid = "C16"
    vo_check = ["theories/Gro/Check.vo", "theories/Gen/GroAst.vo"]
    vo_props = ["theories/Props/C16.vo"]
    k_names = ["written-buffers(tun.handleGRO == Gro.Model.handle_gro: toWrite, virtio headers, packets, byte-exact)",
               "write-path((*NativeTun).Write on one device, call after call == handle_gro with fresh tables per call: datagrams on the fd, byte-exact)"]
    rule = ("batches of 2..128 packets from one PRNG: 1-5 (up to 8) interleaved flows over TCP/UDP/other x IPv4/IPv6; TCP flows in "
            "order / reversed / shuffled / one late / duplicated / gapped or overlapping / halves swapped, sequence numbers "
            "around 2^32, equal / short-tail / short-middle / one-larger / random sizes, PSH/FIN/SYN/RST/URG, TOS/TTL/DF/"
            "reserved-bit/traffic-class/hop-limit deviations, option sets, windows, ack changes, fragments, IPv4 options, "
            "length-field mismatches, bad checksums; UDP likewise incl. zero checksum; capacities 65535, 65535+offset, a few "
            "segments of room, exactly the packet, and the boundary cap-2*offset = merged length +-1; offsets 10..100; "
            "canUDPGRO on/off; invalid-offset error returns; differing IPv6 flow labels within a 5-tuple, capacities of 128 KiB, PSH with prepends, stale bytes in front of every packet; plus the 4 regression scenarios of the repaired defects, the scenario of the known finding (UDP order) and 3 fixed batches. "
            "non-trivial = at least one packet coalesced and at least one not; distinct by content hash")
    assumptions = [
        "theorem scope: every batch (any capacities) with offset >= 10 and no empty packet (then no error is returned: C16_gro_no_error); input bytes < 256 for the TCP flow-equivalence part; the UDP order clause is proved over the datagrams udpGRO considers, and holdsb itself for batches whose UDP datagrams all pass its gates (the unrestricted statement is refuted: finding gro-udp-noncandidate-overtaken)",
        "KernelSpec.v (virtio-net header semantics, ip_rcv trim, TSO/USO segmentation, CHECKSUM_PARTIAL completion) is written from the kernel's rules; it is validated only against the repository's own gsoSplit + gVisor checksums in the harness",
        "one's-complement sum of tun/checksum.go is modelled at value level (ocfold); its bit-level mirror is C17's Offload/Checksum.v",
        "numMerged/bufsIndex (uint16) are exact for batches below 65536 packets (device: 128)",
    ]
    trusted_extra = ["translator harness/cmd/groast (go/parser: bodies of packetIsGROCandidate and ipHeadersCanCoalesce as a deep-embedded AST; unix.IPPROTO_TCP/UDP through a two-entry table; unrecognised constructs become Unknown nodes; notes/C16-cand-ast.md)",
                     "Base/Ints.v: primitive Uint63 literals carry packet bytes in generated case files only",
                     "uapi numbers (VIRTIO_NET_HDR_*, IPPROTO_*) are literals in Gro/Model.v and Gro/KernelSpec.v, asserted against x/sys/unix by the harness on every run"]

    def __init__(self):
        self.dir = os.path.join(vlib.OUT, "C16")
        # translator G2: packetIsGROCandidate / ipHeadersCanCoalesce regenerated from the source on every run
        self.translators = [lambda: vlib.gen_file("groast", os.path.join("Gen", "GroAst.v"), ["-repo", vlib.REPO])]

    def _load(self, d):
        meta = json.load(open(os.path.join(d, "cases.json")))
        files = [os.path.join(d, s["file"]) for s in meta["shards"]]
        return files, meta

    def _run_go(self, args):
        exe = vlib.build_go("c16")
        rc, o = vlib.sh([exe] + args, cwd=vlib.ROOT, timeout=900)
        if rc != 0:
            raise CheckError("K.C16.driver", o)
        files, meta = self._load(self.dir)
        self.shards = meta["shards"]
        self.extra_coverage = {"case_bytes": meta.get("bytes"),
                               "second_opinion_problems": sum(1 for c in meta["cases"] if c.get("second"))}
        return files, meta["cases"]

    def generate(self, seed, tier, mult):
        n = (450 if tier == "quick" else 5000) * mult
        shards = 16 if tier == "quick" else 64
        args = ["-seed", str(seed), "-n", str(n), "-shards", str(shards), "-out", self.dir,
                "-corpus", os.path.join(vlib.ROOT, "corpus", "C16")]
        if os.environ.get("C16_NO_FINDINGS"):
            # leaves out the scenario of the known finding gro-udp-noncandidate-overtaken
            args.append("-no-findings")
        return self._run_go(args)

    @staticmethod
    def _fails(shards, files, outputs):
        res = []
        for s, f in zip(shards, files):
            for (idx, kind, pos) in vlib.parse_n_tuples(vlib.coq_value(outputs[f], "bad")):
                res.append({"case": s["cases"][idx], "kind": kind, "pos": pos})
        res.sort(key=lambda f: (f["case"], f["kind"]))
        return res

    @staticmethod
    def _promote(fs):
        bad2 = {f["case"] for f in fs if f["kind"] == 2}
        seen = set()
        for f in list(fs):
            if f["kind"] == 1 and f["case"] not in bad2 and f["case"] not in seen:
                seen.add(f["case"])
                pos = {1: 91, 2: 92, 900: 94}.get(f["pos"], 93)
                fs.append({"case": f["case"], "kind": 2, "pos": pos, "mismatch_pos": f["pos"]})
        fs.sort(key=lambda f: (f["case"], f["kind"]))
        return fs

    def failures(self, outputs, files, cases):
        fs = self._fails(self.shards, files, outputs)
        # second opinion of the harness (repository's gsoSplit + gVisor checksums) on GSO buffers the
        # Coq specification accepted: a disagreement means KernelSpec.v and gsoSplit differ
        for i, c in enumerate(cases):
            if c.get("panic"):
                fs.append({"case": i, "kind": 2, "pos": 12, "panic": c["panic"][:200]})
        bad2 = {f["case"] for f in fs if f["kind"] == 2}
        for i, c in enumerate(cases):
            if c.get("second") and i not in bad2:
                fs.append({"case": i, "kind": 1, "pos": 900, "second": c["second"][:3]})
        return self._promote(fs)

    def stats(self, outputs):
        tot = [0] * len(STAT_NAMES)
        for o in outputs.values():
            v = vlib.parse_n_list(vlib.coq_value(o, "st"))
            tot = [a + b for a, b in zip(tot, v)]
        return dict(zip(STAT_NAMES, tot))

    def run_cases(self, cases):
        d = os.path.join(self.dir, "rerun")
        os.makedirs(d, exist_ok=True)
        inp = os.path.join(d, "in.json")
        json.dump([{"gen": c.get("gen", ""), "udp": c["udp"], "off": c["off"], "in": c["in"],
                    "w": c.get("w", False), "pre": c.get("pre")} for c in cases], open(inp, "w"))
        exe = vlib.build_go("c16")
        rc, o = vlib.sh([exe, "-replay", inp, "-shards", str(min(16, len(cases))), "-out", d], cwd=vlib.ROOT, timeout=900)
        if rc != 0:
            raise CheckError("K.C16.driver", o)
        files, meta = self._load(d)
        outs = vlib.run_case_files(files)
        self.last_rerun = meta["cases"]
        fs = self._fails(meta["shards"], files, outs)
        for i, c in enumerate(meta["cases"]):
            if c.get("panic"):
                fs.append({"case": i, "kind": 2, "pos": 12, "panic": c["panic"][:200]})
        return self._promote(fs)

    def shrink_candidates(self, case):
        # the dedicated finding scenarios are minimal by construction
        if case.get("gen", "").startswith(("finding/", "regression/")):
            return
        pk = case["in"]
        n = len(pk)
        budget = 6000000      # bytes of candidates per round (cost in Coq is linear in it)
        chunk = n // 2
        while chunk >= 1:
            for i in range(0, n, chunk):
                cand = pk[:i] + pk[i + chunk:]
                if cand and len(cand) < n:
                    budget -= sum(len(b["data"]) for b in cand)
                    if budget < 0:
                        return
                    yield {"gen": case.get("gen", ""), "udp": case["udp"], "off": case["off"], "in": cand,
                           "w": case.get("w", False), "pre": case.get("pre")}
            chunk //= 2

    def signature(self, case, f):
        code = f.get("pos")
        sig = CODES.get(code, "spec-code-%s" % code)
        if code == 65:
            big = any(b.get("cap", 0) > 65535 + 2 * case["off"] for b in case["in"])
            sig += "-with-large-cap" if big else "-with-cap-in-range"
        return sig

    def nontrivial(self, c):
        if c.get("w"):
            return bool(c.get("pre")) and not c["err"] and 0 < len(c.get("out") or []) < len(c["in"])
        return (not c["err"]) and 0 < len(c["tw"]) < len(c["in"]) and len(c["tw"]) > 1

    def sample(self, c):
        return {"gen": c.get("gen"), "packets": len(c["in"]), "offset": c["off"], "canUDPGRO": c["udp"],
                "write_path_call_after": len(c.get("pre") or []) if c.get("w") else None,
                "lengths_in": [len(b["data"]) // 2 for b in c["in"][:12]], "toWrite": c["tw"][:12],
                "lengths_written": [len(b["data"]) // 2 for b in (c.get("out") or [])[:12]],
                "virtio_hdrs": [b["hdr"] for b in (c.get("out") or [])[:4]]}


def check(tier, seed):
    return vlib.engine(Prop(), tier, seed)


def replay(path):
    obj = json.load(open(path))
    p = Prop()
    case = obj.get("input") or obj
    fs = p.run_cases([case])
    got = p.last_rerun[0]
    print(json.dumps({"failures": [dict(f, signature=p.signature(case, f)) if f["kind"] == 2 else f for f in fs],
                      "toWrite": got["tw"], "written_lengths": [len(b["data"]) // 2 for b in got["out"]],
                      "virtio_hdrs": [b["hdr"] for b in got["out"]]}))
    if any(f["kind"] == 2 for f in fs):
        print("VIOLATION property=C16 replay=%s" % path)
        return 1
    return 0
