# C04 — send counters: all-schedules proof (Coq) + co-simulation scenarios against the slice
# model + stress traces validated by the Coq checker.
import json, os
import vlib
from vlib import CheckError

REJECT = 2**64 - 2**13 - 1
REKEY = 2**60


class Prop:
    pid = "C04"
    vo_check = ["theories/Nonce/Check.vo", "theories/Gen/NonceProg.vo", "theories/Nonce/Prog.vo"]
    vo_props = ["theories/Props/C04.vo"]
    k_names = ["numbering(device under co-simulation == Nonce.Seq.dstep incl. sendNonce after every step; Nonce.Spec.seq_check on the observed datagrams; the device comes to rest)",
               "stress(every (receiver index, counter) seen under concurrent flushers passes Nonce.Spec.conc_holdsb)",
               "duplicate-response(copies of one valid handshake response processed by concurrent handshake workers: every "
               "(receiver index, counter) sent afterwards passes Nonce.Spec.conc_holdsb)"]
    rule = ("sequential scenarios: one peer, events {TUN batch 1..128, VerifSetSendNonce to 0 / 2^60-1..2^60+1 / Reject-130..Reject+2, "
            "Bind.Send error on a transport batch (clean / partial k of n) or on the initiation, "
            "retransmit timer in two real-time scenarios run concurrently, handshake answer by the independent party (device = initiator), handshake initiated by the independent party and confirmed by "
            "its first data message (device = RESPONDER), 5 s-spacing shift, UAPI keepalive toggle}, two directed scenarios per boundary "
            "value (one per role) plus random ones from ONE PRNG; non-trivial = the scenario makes the device hold packets (exhausted/straddle/no key) "
            "or pass 2^60; distinct by content hash.  stress traces: 1-3 peers, 6 kinds of concurrent flushers, GOMAXPROCS/gate-sleep/"
            "CPU-hog perturbation, 8 phases per world with the counter put next to the limits at quiescent points; "
            "non-trivial = more than one key and at least 1000 transports")
    assumptions = ["interleaving model: every atomic operation on sendNonce is one sequentially consistent step (Go memory model for sync/atomic)",
                   "fewer than 2^13 goroutines flush one keypair at the same time (the proof's hypothesis; the device has about 5 per peer)",
                   "time-based expiry (120/180 s) is not exercised here (C07); staged queue stays below its 128 containers in the scenarios",
                   "stress traces are observations of some schedules, not all: the link goroutines <-> thread programs is trace validation"]
    trusted_extra = ["translator harness/cmd/nonceprog (go/parser over device/*.go without test and verif-tag files: renders the guard, "
                     "numbering expression, over-limit test and clamp of SendStagedPackets and every other access to a field named "
                     "sendNonce; whatever it does not recognise becomes OOther / p_extra, which breaks C04_source_thread_program)",
                     "Base/Ints.v: primitive Uint63 literals carry counters in generated case files only",
                     "harness/stress (perturbation, packet ids), harness/cosim + ref (independent remote party)",
                     "hooks VerifSetSendNonce / VerifShiftHandshakeTimes applied only at quiescent points"]

    def __init__(self):
        self.dir = os.path.join(vlib.OUT, "C04")
        self.extra_coverage = {}
        # translator G2: the thread program over Keypair.sendNonce, regenerated from the source on every run
        self.translators = [lambda: vlib.gen_file("nonceprog", os.path.join("Gen", "NonceProg.v"), ["-repo", vlib.REPO])]

    def model_search(self, broken):
        """The theorems about the program extracted from the source no longer check: search the interpreter
        (Nonce/Prog.v: two flushers x two elements, one expiry anywhere, depth 11, counter next to the limit / at 0)
        for a schedule on which a counter is handed out twice or at/after the limit."""
        d = os.path.join(self.dir, "modelsearch")
        os.makedirs(d, exist_ok=True)
        open(os.path.join(d, "Search.v"), "w").write(
            "From WG Require Import Base.Prelude Gen.Constants Nonce.Seq Nonce.Conc Nonce.ProgSyntax Nonce.Prog Gen.NonceProg.\n"
            "Definition w := Eval vm_compute in match search Gen.NonceProg.prog 11 with\n"
            "  | Some (n0, s) => (1%N, n0, map act_code s, rev (emitted (prun Gen.NonceProg.prog 2 (init n0 (fun _ => 2%nat)) s)))\n"
            "  | None => (0%N, 0%N, [], []) end.\nPrint w.\n")
        rc, o = vlib.sh(["timeout", "600", "coqc", "-Q", os.path.join(vlib.COQ, "theories"), "WG", "Search.v"], cwd=d)
        if rc != 0:
            return None
        flat = " ".join(o.split())
        import re
        m = re.search(r"w = \((\d+)%N, (\d+)%N, \[([^\]]*)\], \[([^\]]*)\]\)", flat)
        if not m or m.group(1) != "1":
            return None
        nums = lambda t: [int(x) for x in re.findall(r"(\d+)%N", t)]
        sched = ["Expire (ExpireCurrentKeypairs' Store)" if a == 99 else "Step of flusher %d" % a for a in nums(m.group(3))]
        prog = open(os.path.join(vlib.COQ, "theories", "Gen", "NonceProg.v")).read()
        return {"signature": "extracted-thread-program-hands-out-a-counter-twice-or-beyond-the-limit",
                "extracted_program": prog, "start_counter": int(m.group(2)), "flushers": 2, "elements_per_flusher": 2,
                "schedule": sched, "counters_emitted_in_order": nums(m.group(4)),
                "replay": "coqc -Q coq/theories WG out/C04/modelsearch/Search.v   (interpreter Nonce/Prog.v on Gen/NonceProg.v as "
                          "regenerated from the tree under test by out/bin/nonceprog -repo <tree>)"}

    def _load(self, d):
        meta = json.load(open(os.path.join(d, "cases.json")))
        files = [os.path.join(d, s["file"]) for s in meta["shards"]]
        return meta, files

    def _run_go(self, args):
        exe = vlib.build_go("c04")
        rc, o = vlib.sh([exe] + args, cwd=vlib.ROOT, timeout=1800)
        if rc != 0:
            raise CheckError("K.C04.driver", o)
        meta, files = self._load(self.dir)
        self.shards = meta["shards"]
        return files, meta["cases"]

    def generate(self, seed, tier, mult):
        if tier == "quick":
            n, worlds, dur = 60 * mult, 5, 2000
        else:
            n, worlds, dur = 600 * mult, 40, 4000
            self._cross = 12
        files, cases = self._run_go(["-seed", str(seed), "-n", str(n), "-worlds", str(worlds), "-dur-ms", str(dur),
                                     "-cross", str(getattr(self, "_cross", 2)),
                                     "-shards", "16", "-out", self.dir, "-corpus", os.path.join(vlib.ROOT, "corpus", "C04")])
        dup = [c for c in cases if c["kind"] == "conc" and c.get("gen") == "dupresp"]
        conc = [c for c in cases if c["kind"] == "conc" and c.get("gen") != "dupresp"]
        self.extra_coverage = {
            "duplicate_response_rounds": sum(c["info"].get("rounds", 0) for c in dup),
            "discarded_slow_scenarios": sum(1 for c in cases if c.get("slow")),
            "stuck_scenarios": sum(1 for c in cases if c.get("stuck")),
            "stress_worlds": len(conc),
            "stress_crossing_worlds": sum(1 for c in conc if (c.get("cfg") or {}).get("cross")),
            "stress_counters_raised_to_the_limit": sum(c["info"].get("counter_raised_to_limit", 0) for c in conc),
            "stress_transports": sum(c["info"]["transports"] for c in conc),
            "stress_keys": sum(c["info"]["keys"] for c in conc),
            "stress_keys_that_reached_the_limit": sum(c["info"]["keys_reached_limit"] for c in conc),
            "stress_out_of_order_neighbours": sum(c["info"]["out_of_order_neighbours"] for c in conc),
            "stress_private_key_changes": sum(c["info"]["expires"] for c in conc),
            "stress_hung_worlds": sum(1 for c in conc if c["info"]["hung"]),
        }
        return files, cases

    def _fails(self, shards, files, outputs):
        res = []
        for s, f in zip(shards, files):
            for (idx, kind, pos) in vlib.parse_n_tuples(vlib.coq_value(outputs[f], "bad")):
                res.append({"case": s["first"] + idx, "kind": kind, "pos": pos})
        return res

    def failures(self, outputs, files, cases):
        fs = self._fails(self.shards, files, outputs)
        # a sequential scenario with a step that did not settle in time is discarded (counted): its observations are
        # incomplete, so neither the model comparison nor the "initiation is due" clauses can be judged.  Stress
        # traces are never discarded: duplicates / counters over the limit are violations on any prefix.
        return [f for f in fs if not (cases[f["case"]].get("slow") and cases[f["case"]]["kind"] == "seq")]

    def stats(self, outputs):
        tot = [0] * 16
        for o in outputs.values():
            v = vlib.parse_n_list(vlib.coq_value(o, "st"))
            tot = [a + b for a, b in zip(tot, v)]
        names = ["all_numbered", "straddle_numbered_and_held", "exhausted_at_top_check", "no_key_staged",
                 "initiation_after_2^60", "initiation_suppressed_by_spacing", "new_session_delivers_held", "new_session_keepalive",
                 "stress_transports", "stress_keys", "stress_non_consecutive_neighbours",
                 "responder_session_confirmed_by_data", "initiation_after_2^60_as_responder",
                 "transport_send_refused_by_bind", "initiation_refused_by_bind", "retransmit_timer_with_unanswered_initiation"]
        return dict(zip(names, tot))

    def run_cases(self, cases):
        d = os.path.join(self.dir, "rerun")
        os.makedirs(d, exist_ok=True)
        inp = os.path.join(d, "in.json")
        json.dump([{"kind": c.get("kind", "seq"), "evs": c.get("evs"), "cfg": c.get("cfg"), "long": c.get("long", False),
                    "gen": c.get("gen"), "info": c.get("info")} for c in cases], open(inp, "w"))
        exe = vlib.build_go("c04")
        rc, o = vlib.sh([exe, "-replay", inp, "-out", d], cwd=vlib.ROOT, timeout=1800)
        if rc != 0:
            raise CheckError("K.C04.driver", o)
        meta, files = self._load(d)
        outs = vlib.run_case_files(files)
        self.last_rerun = meta["cases"]
        for c, r in zip(cases, meta["cases"]):      # observations travel with the (shrunk) input
            c["obs"] = r.get("obs")
            c["evs_applied"] = r.get("evs")
            c["stuck"] = r.get("stuck", False)
            if r.get("kind") == "conc":
                c["keys"], c["info"] = r.get("keys"), r.get("info")
        return self._fails(meta["shards"], files, outs)

    def shrink_candidates(self, case):
        if case.get("kind") != "seq" or case.get("stuck") or case.get("long"):
            return      # stress traces and stuck scenarios (each attempt costs ~20 s) are reported as they are
        evs = case["evs"]
        n = len(evs)
        chunk = n // 2
        while chunk >= 1:
            for i in range(2, n, chunk):        # keep the first handshake
                cand = evs[:i] + evs[i + chunk:]
                if len(cand) < n:
                    yield {"kind": "seq", "evs": cand}
            chunk //= 2
        for i, e in enumerate(evs):             # smaller batches
            if e["k"] == "tun" and e.get("n", 0) > 1:
                yield {"kind": "seq", "evs": evs[:i] + [dict(e, n=e["n"] // 2)] + evs[i + 1:]}

    def signature(self, case, f):
        if case.get("kind") == "conc":
            keys = {}
            dup = over = False
            for k in (case.get("keys") or []):
                seen = set()
                for (a, n) in (k.get("runs") or []):
                    for c in range(a, a + n):
                        if c in seen:
                            dup = True
                        seen.add(c)
                        if c >= REJECT:
                            over = True
            if case.get("gen") == "dupresp" and dup:
                return "duplicate-response-concurrent-workers-nonce-reuse"
            tags = (["duplicate-counter"] if dup else []) + (["counter-at-or-over-limit"] if over else [])
            return "stress-" + ("+".join(tags) or "other")
        if case.get("stuck"):
            return "device-did-not-come-to-rest-or-crashed"
        # computed from the whole (possibly shrunk) case, not from the failure position
        obs = case.get("obs") or []
        evs = case.get("evs_applied") or case.get("evs") or []
        txs = [t for o in obs for t in (o.get("tx") or [])]
        if any(t["c"] >= REJECT for t in txs):
            return "counter-at-or-over-limit"
        if len({(t["i"], t["c"]) for t in txs}) != len(txs):
            return "duplicate-key-counter"
        ids = [t["p"] for t in txs if t["p"] != 0]
        if len(set(ids)) != len(ids):
            return "packet-sent-twice"
        if any(t["p"] >= 2**40 for t in txs):
            return "transport-does-not-open-or-foreign-packet"
        sub, sent, allowed, nxt, role = set(), set(), True, None, {}
        for e, o in zip(evs, obs):
            if e["k"] in ("tun", "tungso", "tunerr", "tunierr"):
                sub |= set(range(o.get("first", 0), o.get("first", 0) + e.get("n", 0))) - set(o.get("lost") or [])
            sent |= {t["p"] for t in (o.get("tx") or []) if t["p"] != 0}
            fresh = o.get("idx") if e["k"] == "ans" else (nxt if e["k"] == "refdata" else None)
            if e["k"] == "ans":
                role[o.get("idx")] = "initiator"
            if e["k"] == "refinit":
                role[o.get("idx")] = "responder"
            if fresh is not None and sub - sent:
                return "held-packets-not-delivered-by-new-session"
            passed = [t for t in (o.get("tx") or []) if t["c"] > REKEY] if e["k"] != "tunerr" else []
            due = bool(passed) or bool(sub - sent)
            flush = e["k"] in ("tun", "tungso", "tunerr", "ans", "uapi") or (e["k"] == "refdata" and nxt is not None)
            if e["k"] == "retransmit" and (sub - sent) and o.get("init", 0) == 0:
                return "no-retransmission-of-refused-or-unanswered-initiation-packets-stuck"
            if e["k"] == "tunierr" and allowed and (due or any(t["c"] >= REKEY for t in (o.get("tx") or []))):
                allowed = False
            if allowed and flush and due and o.get("init", 0) == 0:
                return "no-initiation-when-due" + ("-device-was-%s" % role.get(passed[0]["i"], "unknown") if passed else "")
            if e["k"] == "allow":
                allowed = True
            elif e["k"] == "refinit" or o.get("init", 0) >= 1:
                allowed = False
            if e["k"] == "refinit":
                nxt = o.get("idx")
            elif e["k"] in ("ans", "refdata"):
                nxt = None
        return "seq-other"

    def nontrivial(self, c):
        if c["kind"] == "conc":
            if c.get("gen") == "dupresp":
                return c["info"]["keys"] > 1
            return c["info"]["keys"] > 1 and c["info"]["transports"] >= 1000
        if c.get("stuck"):
            return True
        sub = sum(e.get("n", 0) for e in c["evs"] if e["k"] in ("tun", "tungso", "tunerr", "tunierr"))
        held = False
        sent = 0
        for e, o in list(zip(c["evs"], c["obs"]))[1:]:       # the first batch only starts the first handshake
            data = sum(1 for t in (o.get("tx") or []) if t["p"] != 0)
            if e["k"] in ("tun", "tungso", "tunerr", "tunierr") and data < e.get("n", 0):
                held = True
        passed = any(t["c"] >= REKEY for o in c["obs"] for t in (o.get("tx") or []))
        return sub > 1 and (held or passed)

    def sample(self, c):
        if c["kind"] == "conc":
            return {"kind": "conc", "cfg": c["cfg"], "info": c["info"],
                    "first_keys": [{"key": k["key"], "runs": (k.get("runs") or [])[:6]} for k in (c.get("keys") or [])[:3]]}
        if c.get("stuck"):
            return {"kind": "seq", "stuck": True, "events": c["evs"][:12], "info": c.get("info")}
        return {"kind": "seq", "gen": c.get("gen"), "events": c["evs"][:10],
                "observed": [{"tx": (o.get("tx") or [])[:4], "ntx": len((o.get("tx") or [])), "init": o["init"], "send_nonce": o.get("nonce") if o.get("has_key") else None} for o in c["obs"][:10]]}


def check(tier, seed):
    # two simultaneous runs of this check would overwrite each other's case files in out/C04: serialise them
    with vlib.Lock("C04-run"):
        return vlib.engine(Prop(), tier, seed)


def replay(path):
    obj = json.load(open(path))
    p = Prop()
    case = obj.get("input") or obj
    # a stress trace depends on the schedule: its configuration is run up to 3 times
    for rep in range(3 if case.get("kind") == "conc" else 1):
        fs = p.run_cases([case])
        if any(f["kind"] == 2 for f in fs):
            break
    got = p.last_rerun[0]
    print(json.dumps({"failures": fs, "observed": got.get("obs") or got.get("info")})[:4000])
    if any(f["kind"] == 2 for f in fs):
        print("VIOLATION property=C04 replay=%s" % path)
        return 1
    return 0
