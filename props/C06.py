# C06 — handshake messages: integrity, anti-replay, flood limit, monotone timestamps.
# Coq: Tai64n (whitened clock), HsGate (slice model of the handshake receive path + property checker);
# correspondence: co-simulation of the real device with altered/replayed/mistimed handshake messages.
import json, os
import vlib
from vlib import CheckError

CLAUSES = {1: "bad-message-not-inert", 2: "accepted-initiation-not-strictly-newer", 3: "accepted-initiation-inside-flood-interval",
           4: "session-for-superseded-initiation", 5: "second-session-for-one-initiation", 6: "emitted-timestamps-not-increasing"}
MISMATCH = {1: "outputs", 2: "peer snapshot", 3: "index table", 4: "clock reading outside [before, after] of the step", 7: "initial state"}
HIST = ["dropped_length", "dropped_type", "mac1_fails", "static_does_not_open", "unknown_initiator", "timestamp_does_not_open",
        "replay_ts_not_newer", "flood", "initiation_accepted", "response_unaddressed", "response_wrong_state",
        "transcript_fails", "response_accepted", "tun_initiation", "tun_spacing_blocks", "tun_transport", "shift_hook",
        "restart", "ambiguous_flood_steps", "tun_unknown_peer", "valid_mac1_under_load_cookie_reply",
        "under_load_toggles", "gate_or_mac1_fails_under_load", "concurrent_initiation_burst_one_leaves", "burst_blocked_by_spacing",
        "peer_removed_with_timer_callback_in_flight", "window_response_consumed_then_superseded_no_session",
        "window_response_consumed_handshake_untouched_session", "window_response_not_consumable_sequential"]


def executed(case):
    """indices (into case['steps']) of the steps that made it into the case file"""
    obs = case.get("obs") or []
    res = []
    for i, s in enumerate(case["steps"]):
        if s["op"] in ("sleep", "align"):
            continue
        if i < len(obs) and obs[i].get("skipped"):
            continue
        res.append(i)
    return res


class Prop:
    pid = "C06"
    vo_check = ["theories/HsGate/Check.vo", "theories/Gen/TaiAst.vo"]
    vo_props = ["theories/Props/C06.vo"]
    k_names = ["handshake-gate(device co-simulation == HsGate.Model.step, outputs + peer snapshot + index table after every step)",
               "tai64n(VerifStamp == Tai64n.Model.stamp, Timestamp.After == after_bytes)"]
    rule = ("scenarios from one PRNG against the real device (sim bind/tun, ref as remote party): valid initiations/responses from ref "
            "altered by single-bit flips (quick: 200 sampled positions, thorough: all 148*8+92*8), every length change -3..+3, every field "
            "substitution with and without recomputed MAC1, type substitutions, MAC1 for another key, wrong responder, stranger, wrong psk, "
            "replays and reorderings, timestamps older/equal/newer/extreme, second initiation back-to-back vs after 60 ms, responses to a "
            "superseded initiation, responses twice, reflected device initiations, random mixtures; under load (VerifForceUnderLoad): "
            "MAC1-invalid messages (covered/MAC1 bit flips, substitutions, length, type, foreign key) must stay silent, the unaltered one draws "
            "a cookie reply; receive side across Down/Up: answered initiation, restart, replay of the same bytes / older / equal / newer "
            "timestamps from several addresses, response to a pre-restart initiation; responses whose receiver is replaced (MAC1 recomputed) by every "
            "index the device ever issued for the peer (session indices in next/current/previous, deleted ones) while a new initiation is outstanding; "
            "valid initiations with crafted increasing timestamps fired back to back (judged against the 1/50 s of the property text with the "
            "conservative bound settle-time(second) - inject-time(first) < 20 ms), also with a Down/Up right after the answered one; RemovePeer while the peer's retransmit-handshake timer callback is in flight (parked on the static identity): afterwards the response to the initiation that callback sent, replays, session-index responses and initiations of the removed peer must be inert; 4..12 goroutines calling SendHandshakeInitiation at once (48+ rounds): exactly one initiation may leave; an event INSIDE the response-processing window of a handshake worker (the worker is parked on its own log line between ConsumeMessageResponse and BeginSymmetricSession through a harness-owned device.Logger): time shift + SendHandshakeInitiation (a new initiation leaves), SendHandshakeInitiation inside RekeyTimeout, the peer's fresh / replayed / older initiation, the other peer's initiation, a second response — then the answer to the most recent initiation, replays, responses for every issued index, a fresh initiation and TUN data; device-emitted timestamps across a restart only in "
            "the dedicated F7 scenario; non-trivial = scenario with at least one accepted and one inert handshake message; distinct by content hash")
    assumptions = ["messages whose MAC1 does not verify (or that fail the size/type gate) must be silent and inert under load too; for messages with a "
                   "valid MAC1 the no-reply clauses are for a device not under load (under load the cookie reply is C10's business and is only mirrored, not judged)",
                   "one datagram at a time with quiescence in between (no two initiations of one peer race through the handshake workers), except the response-window steps: exactly one event placed between ConsumeMessageResponse and BeginSymmetricSession of a parked handshake worker",
                   "instants are not before 1970; tai64n seconds do not wrap (true for every int64 Unix time)",
                   "the 20 ms flood gap is exercised at <5 ms and >40 ms; steps whose measured gap falls in [5 ms, 40 ms] accept either outcome (counted)",
                   "message types 3/4 substituted into handshake bytes leave the slice (cookie/transport paths) and are only checked to be inert"]
    trusted_extra = ["translator harness/cmd/taiast (go/parser: bodies of Timestamp.After and stamp of tai64n/tai64n.go as a deep-embedded AST; bytes.Compare is a recognised primitive; unrecognised constructs become Unknown nodes; notes/C01-C06-ast.md)",
                     "harness/ref (protocol from the white-paper) builds and opens the messages; harness/cosim+sim drive the device",
                     "device accessors VerifPeer / VerifIndexTable / VerifShiftHandshakeTimes and Device.IpcGet for the snapshots",
                     "Base/Ints.v: primitive Uint63 literals carry all numbers in generated case files"]

    def __init__(self):
        self.dir = os.path.join(vlib.OUT, "C06")
        # translator G2: Timestamp.After and stamp regenerated from the source on every run
        self.translators = [lambda: vlib.gen_file("taiast", os.path.join("Gen", "TaiAst.v"), ["-repo", vlib.REPO])]
        self.extra_coverage = {}

    def _load(self, d):
        meta = json.load(open(os.path.join(d, "cases.json")))
        files = [os.path.join(d, s["file"]) for s in meta["shards"]]
        return meta, files

    def generate(self, seed, tier, mult):
        n = (150 if tier == "quick" else 800) * mult
        f7 = 20 if tier == "quick" else 60
        shards = 8 if tier == "quick" else 32
        exe = vlib.build_go("c06")
        rc, o = vlib.sh([exe, "-seed", str(seed), "-n", str(n), "-tier", tier, "-f7", str(f7), "-shards", str(shards), "-out", self.dir,
                         "-corpus", os.path.join(vlib.ROOT, "corpus", "C06")], cwd=vlib.ROOT, timeout=3000)
        if rc != 0:
            raise CheckError("K.C06.driver", o)
        meta, files = self._load(self.dir)
        self.shards = meta["shards"]
        cases = meta["cases"]
        f7c = [c for c in cases if c["gen"] == "f7-restart" and c.get("f7_equal") is not None]
        gaps = sorted(c.get("f7_gap_ns", 0) for c in f7c)
        self.extra_coverage.update({
            "f7_restart_rounds": len(f7c),
            "f7_equal_timestamps": sum(1 for c in f7c if c["f7_equal"]),
            "f7_rounds_aligned_to_whitening_quantum": sum(1 for c in f7c if c.get("f7_aligned")),
            "f7_equal_timestamps_aligned": sum(1 for c in f7c if c["f7_equal"] and c.get("f7_aligned")),
            "f7_median_gap_ms": round(gaps[len(gaps) // 2] / 1e6, 2) if gaps else None,
            "scenarios_discarded_and_rerun": meta.get("discarded", 0),
            "scenarios_dropped_after_three_slow_attempts": meta.get("dropped", 0),
            "tai64n_stamp_cases": meta.get("tai_cases", 0), "tai64n_after_cases": meta.get("after_cases", 0),
            "handshake_messages_injected": sum(c["accepted"] + c["inert"] for c in cases),
            "handshake_messages_accepted": sum(c["accepted"] for c in cases),
            "concurrent_initiation_rounds": sum(1 for c in cases for o in (c.get("obs") or []) if o.get("op") == "burst" and c["gen"] == "concurrent-initiations"),
            "concurrent_initiation_rounds_with_more_than_one_initiation": sum(1 for c in cases for o in (c.get("obs") or []) if o.get("op") == "burst" and o.get("inits", 0) > 1),
            "scenarios_by_family": {g: sum(1 for c in cases if c["gen"] == g) for g in sorted({c["gen"] for c in cases})},
        })
        return files, cases

    def _fails(self, outputs, shards, files):
        res = []
        for s, f in zip(shards, files):
            for (idx, kind, pos) in vlib.parse_n_tuples(vlib.coq_value(outputs[f], "bad")):
                if idx >= 1000000:
                    res.append({"case": 0, "kind": 1, "pos": 0, "tai64n_case": idx,
                                "what": "tai64n.%s differs from Tai64n.Model" % ("After" if idx >= 2000000 else "stamp")})
                    continue
                d = {"case": s["first"] + idx, "kind": kind, "pos": pos, "step": pos // 8}
                if kind == 2:
                    d["clause"] = CLAUSES.get(pos % 8, "?")
                else:
                    d["differs"] = MISMATCH.get(pos % 8, "?")
                res.append(d)
        return res

    def failures(self, outputs, files, cases):
        fs = self._fails(outputs, self.shards, files)
        if not hasattr(self, "last_fails"):
            self.last_fails, self.last_cases = fs, cases
        return fs

    def stats(self, outputs):
        tot = [0] * len(HIST)
        for o in outputs.values():
            v = vlib.parse_n_list(vlib.coq_value(o, "st"))
            tot = [a + b for a, b in zip(tot, v)]
        self.extra_coverage["ambiguous_flood_steps"] = tot[18]
        return dict(zip(HIST, tot))

    def run_cases(self, cases):
        d = os.path.join(self.dir, "rerun")
        os.makedirs(d, exist_ok=True)
        inp = os.path.join(d, "in.json")
        json.dump([{"gen": c.get("gen", "replay"), "steps": c["steps"]} for c in cases], open(inp, "w"))
        exe = vlib.build_go("c06")
        rc, o = vlib.sh([exe, "-replay", inp, "-out", d], cwd=vlib.ROOT, timeout=1200)
        if rc != 0:
            raise CheckError("K.C06.driver", o)
        meta, files = self._load(d)
        outs = vlib.run_case_files(files)
        self.last_rerun = meta["cases"]
        return self._fails(outs, meta["shards"], files)

    def shrink_candidates(self, case):
        steps = case["steps"]
        n = len(steps)
        chunk = n // 2
        while chunk >= 1:
            for i in range(0, n, chunk):
                cand = steps[:i] + steps[i + chunk:]
                if cand and len(cand) < n:
                    yield {"gen": case.get("gen", "shrunk"), "steps": cand}
            chunk //= 2

    def signature(self, case, f):
        clause = f["pos"] % 8
        ex = executed(case)
        k = f["pos"] // 8
        upto = case["steps"][: (ex[k] + 1 if k < len(ex) else len(case["steps"]))]
        step = upto[-1] if upto else {}
        if clause == 6:
            # triggers of device initiations: TUN packets and (concurrent) SendHandshakeInitiation calls
            trig = [i for i, s in enumerate(upto) if s["op"] in ("tun", "burst")]
            restart_between = len(trig) >= 2 and any(s["op"] == "restart" for s in upto[trig[-2]:trig[-1]])
            if step.get("op") == "burst" and step.get("k", 1) > 1 and not restart_between:
                # several callers of SendHandshakeInitiation got past the RekeyTimeout spacing together
                return "concurrent-initiations-equal-timestamps"
            if restart_between:
                # two initiations of one peer with a restart in between, no newer cause: design finding F7
                return "equal-timestamps-after-restart"
            return "emitted-timestamps-not-increasing-without-restart"
        m = step.get("msg") or {}
        if step.get("op") == "resp_window":
            # a response whose handshake worker was overtaken between ConsumeMessageResponse and BeginSymmetricSession
            inner = step.get("wact", "?")
            if inner == "msg":
                inner = "peer-" + (step.get("wmsg") or {}).get("kind", "msg")
            return "%s:response-window:%s" % (CLAUSES.get(clause, "clause%d" % clause), inner)
        alt = "+".join(sorted({mu["op"] + (":" + str(mu["v"]) if mu["op"] == "subst" else "") for mu in m.get("muts", [])})) or "unaltered"
        if m.get("lendelta"):
            alt += "+len"
        if m.get("remac"):
            alt += "+remac"
        if m.get("replay"):
            alt = "replay"
        sig = "%s:%s:%s" % (CLAUSES.get(clause, "clause%d" % clause), m.get("kind", step.get("op", "?")), alt)
        if clause == 3 and any(s["op"] == "restart" for s in upto[:-1]):
            sig += ":across-restart"   # the flood limit was forgotten over a peer Stop/Start
        return sig

    def nontrivial(self, c):
        return c.get("accepted", 0) > 0 and c.get("inert", 0) > 0

    def sample(self, c):
        def short(s):
            if s["op"] == "msg":
                m = s["msg"]
                return {k: v for k, v in m.items() if k in ("kind", "from", "replay", "muts", "remac", "lendelta", "tsoff", "ans", "mac1key", "to", "psk") and v not in (None, 0, False, [])}
            return {k: v for k, v in s.items() if v not in (None, 0)}
        return {"gen": c.get("gen"), "steps": [short(s) for s in c["steps"][:6]], "length": len(c["steps"]),
                "accepted": c.get("accepted"), "inert": c.get("inert"),
                "observed": [(o.get("out") or [])[:2] for o in (c.get("obs") or [])[:4]]}


class _Tee:
    def __init__(self, out):
        self.out, self.lines = out, []
    def write(self, t):
        self.lines.append(t)
        return self.out.write(t)
    def flush(self):
        self.out.flush()


def check(tier, seed):
    # The generic engine reports a model/implementation mismatch (kind 1) only when no property
    # violation and no known finding was reported in the same run.  The F7 scenario yields a (known)
    # finding on most runs, which would mask a broken correspondence; report it here in that case.
    import sys
    p = Prop()
    tee = _Tee(sys.stdout)
    sys.stdout = tee
    try:
        rc = vlib.engine(p, tier, seed)
    finally:
        sys.stdout = tee.out
    printed = "".join(tee.lines)
    mism = [f for f in getattr(p, "last_fails", []) if f["kind"] == 1]
    # ... and likewise a broken proof obligation (e.g. C06_constants no longer holding for the regenerated
    # constants) is swallowed by the engine when a known finding was printed in the same run.
    try:
        ev = json.load(open(os.path.join(vlib.EVIDENCE, "C06.json")))
        broken = [b for b in ev["coverage"].get("broken_obligations", []) if b != "K"]
    except Exception:
        broken = []
    if broken and "no-failing-input-found" not in printed and "VIOLATION" not in printed:
        path = vlib.write_replay("C06", seed, {"property": "C06", "kind": "obligation no longer checks; no failing input found",
                                               "obligations": broken,
                                               "note": "a theorem of Props/C06.v does not build against the constants regenerated from this tree"}, tag="_T")
        vlib.emit_violation("C06", path, no_input=True)
        printed += "no-failing-input-found"
        rc = 1
    if mism and "no-failing-input-found" not in printed:
        first = p.last_cases[mism[0]["case"]] if p.last_cases else None
        path = vlib.write_replay("C06", seed, {"property": "C06", "kind": "obligation no longer checks; no failing input found",
                                               "obligations": ["K.C06." + p.k_names[1 if mism[0].get("tai64n_case") else 0]],
                                               "mismatches": mism[:10], "first_mismatch": mism[0], "input": first}, tag="_K")
        vlib.emit_violation("C06", path, no_input=True)
        rc = 1
    return rc


def replay(path):
    obj = json.load(open(path))
    p = Prop()
    case = obj[0] if isinstance(obj, list) else (obj.get("input") or obj)
    if not isinstance(case, dict) or "steps" not in case:
        print(json.dumps({"note": "this replay file records a broken proof obligation without an input; rerun bin/check.sh C06 quick",
                          "obligations": obj.get("obligations") or obj.get("obligation")}))
        return 1
    # timing decides some outcomes (whitening quantum of F7, flood gap): run the scenario several times
    fs = p.run_cases([case] * 8)
    bad = [f for f in fs if f["kind"] == 2]
    mism = [f for f in fs if f["kind"] == 1]
    show = (bad or mism or [{"case": 0}])[0]["case"]
    print(json.dumps({"runs": 8, "failures": fs[:8], "observed": p.last_rerun[show]["obs"][:12]}))
    if bad:
        print("VIOLATION property=C06 replay=%s" % path)
        return 1
    if mism:
        print("VIOLATION property=C06 replay=%s no-failing-input-found" % path)
        return 1
    return 0
