# C20 — pool conservation: accounting model Pools/Model.v (Coq theorems over all event lists) + co-simulation of the real
# device built with bounded pools; the five outstanding counts are compared exactly after every step; stall scenarios.
import json, os
import vlib
from vlib import CheckError


class Prop:
    pid = "C20"
    vo_check = ["theories/Pools/Check.vo"]
    vo_props = ["theories/Props/C20.vo"]
    k_names = ["counts(VerifPoolCounts, staged totals and staged-element ownership after every step == Pools.Model.step)",
               "spec(Pools.Spec.holdsb: outstanding == idle baseline + staged, 0 after Close, on the observed counts)",
               "no-stall(sustained traffic through every drop branch with pools of 2*batch+8+receive buffers)"]
    rule = ("scenario = plan of harness actions on a fresh device with bounded pools (4096) and three remote parties, batch "
            "configurations (tun,bind,receive functions) in {(1,1,2),(4,2,1),(2,8,2),(3,3,1)}: 19 directed plans per configuration "
            "(outbound branches, inbound transport branches, handshake branches, key rotation, staged overflow > 128 containers, "
            "overflow then down/up, counter limit with out-of-order re-staging, down/up cycles, persistent keepalive, removal, "
            "identity change, close with packets staged, close while down, rate-limited handshakes under load with a consumed cookie, handshake-queue overflow with all handshake workers parked in Bind.Send, TUN reads that return packets together with ErrTooManySegments followed by close / by a fatal read, containers left in stopped peers' autodraining queues flushed by Start / collected after removal, removeall, close, fatal read, removal while the sequential receiver is held in tun.Write and a datagram arrives, peers configured while the interface is down, Stop placed between the entry test and the hand-off of SendStagedPackets, SendKeepalive / SendStagedPackets calls that arrive after Stop has returned (after Down, after removal, after Close; peer not restarted) followed by removal / Close, straggler containers still locked by a crypto worker when the peer is restarted or its queues are finalised) + random plans from one PRNG; counts read after every "
            "step, Close followed by two runtime.GC(); 29 stall scenarios with very small pools + 4 rounds of two goroutines waiting on an exhausted message-buffer pool while a two-element batch is released + 4 rounds with two waiters and exactly ONE buffer returned; non-trivial = the plan reaches "
            "at least 6 different branch kinds and at least one step with packets staged; distinct by content hash")
    assumptions = ["pools are bounded through the package variable device.VerifPoolMax (build tag verif) so that WaitPool.count is maintained",
                   "counts are read at quiescent points only (sim queues empty, device queues empty, all device goroutines parked twice in a row)",
                   "the model is sequentialised: paths that exist only under concurrency (handshake-queue overflow, removal racing with "
                   "in-flight work, F9) are conservation-neutral in the model and are not compared",
                   "scenarios last well under RekeyTimeout, so no protocol timer fires inside a scenario"]
    trusted_extra = ["harness/sim, harness/ref, harness/cosim (simulated bind/TUN, independent protocol implementation, quiescence detector)"]

    def __init__(self):
        self.dir = os.path.join(vlib.OUT, "C20")
        self.extra_coverage = {}

    def _load(self, d):
        meta = json.load(open(os.path.join(d, "cases.json")))
        files = [os.path.join(d, s["file"]) for s in meta["shards"]]
        return files, meta

    def _synthetic(self, cases, base=0):
        res = []
        for i, c in enumerate(cases):
            if c.get("stall"):
                res.append({"case": base + i, "kind": 2, "pos": 0, "stall": c["stall"], "after_items": c.get("items")})
            elif c.get("stuck") or c.get("slow", 0) > 0:
                res.append({"case": base + i, "kind": 2, "pos": 1, "stuck": c.get("stuck") or "step did not settle"})
        return res

    HOOKS = ["verif_c20_late.go"]     # add-only verif-tag hook files of /repo/device that are not committed yet

    def _build(self):
        # a scratch worktree (VERIF_REPO, bin/seedtest.sh) is made from /repo's HEAD: hook files that are not committed yet
        # are missing there.  They are add-only and tagged, so they are copied into the SCRATCH tree (never into /repo).
        if vlib.ALT:
            import shutil
            for h in self.HOOKS:
                src, dst = os.path.join("/repo/device", h), os.path.join(vlib.REPO, "device", h)
                if os.path.exists(src) and not os.path.exists(dst):
                    shutil.copyfile(src, dst)
        return vlib.build_go("c20")

    def _run_go(self, args):
        exe = self._build()
        rc, o = vlib.sh([exe] + args, cwd=vlib.ROOT, timeout=3000)
        if rc != 0:
            raise CheckError("K.C20.driver", o)
        files, meta = self._load(self.dir)
        self.shards = meta["shards"]
        cases = meta["cases"]
        stalls = [c for c in cases if c["gen"].startswith("stall:")]
        self.extra_coverage = {
            "scenarios": len(cases), "steps": sum(len(c.get("steps") or []) for c in cases),
            "actions_not_applicable": sum(c.get("skipped", 0) for c in cases),
            "stall_scenarios": len(stalls), "stall_pool_max": sorted({c.get("pool_max") for c in stalls}),
            "stalled": [c["stall"] for c in stalls if c.get("stall")],
            "two_waiter_rounds": sum(1 for c in stalls if c["gen"].startswith("stall:two-waiters")),
            "two_waiter_rounds_inconclusive": sum(1 for c in stalls if c["gen"].startswith("stall:two-waiters") and c.get("skipped")),
        }
        return files, cases

    def generate(self, seed, tier, mult):
        quick = tier == "quick"
        n = (60 if quick else 1200) * mult
        args = ["-seed", str(seed), "-n", str(n), "-shards", "16" if quick else "48", "-out", self.dir,
                "-corpus", os.path.join(vlib.ROOT, "corpus", "C20"), "-stall", "300" if quick else "3000"]
        if not quick:
            args.append("-cycle")
        return self._run_go(args)

    def _fails(self, outputs, shards, files):
        res = []
        for s, f in zip(shards, files):
            for (idx, kind, pos) in vlib.parse_n_tuples(vlib.coq_value(outputs[f], "bad")):
                res.append({"case": s["first"] + idx, "kind": kind, "pos": pos, "step": pos // 10, "part": pos % 10})
        return res

    def failures(self, outputs, files, cases):
        return self._fails(outputs, self.shards, files) + self._synthetic(cases)

    def stats(self, outputs):
        names = (["steps", "tun_routed", "tun_dropped_in_reader"] +
                 ["transport_" + x for x in ("valid_data", "keepalive", "bad_auth", "replay", "bad_inner_length", "disallowed_source", "bad_inner_version")] +
                 ["transport_no_live_keypair", "skipped_in_receive_loop"] +
                 ["handshake_" + x for x in ("bad_mac1", "initiation_accepted", "initiation_refused", "response_accepted", "response_refused", "cookie_reply", "under_load_cookie_sent")] +
                 ["peer_removals", "down", "up", "close", "steps_with_full_staged_queue", "steps_with_staged_packets", "identity_changes", "steps_with_counter_limit_restaging",
                  "handshake_under_load_valid_cookie_rate_limiter", "handshake_queue_overflow_labelled",
                  "tun_injections_with_ErrTooManySegments", "fatal_tun_reads", "straggler_injections", "send_calls_after_stop_returned"])
        tot = [0] * len(names)
        for o in outputs.values():
            v = vlib.parse_n_list(vlib.coq_value(o, "st"))
            tot = [a + b for a, b in zip(tot, v)]
        return dict(zip(names, tot))

    def run_cases(self, cases):
        d = os.path.join(self.dir, "rerun")
        os.makedirs(d, exist_ok=True)
        inp = os.path.join(d, "in.json")
        json.dump([{"plan": c["plan"], "cfg": c.get("cfg", [1, 1, 2]), "gen": c.get("gen", "replay")} for c in cases], open(inp, "w"))
        exe = self._build()
        rc, o = vlib.sh([exe, "-replay", inp, "-out", d], cwd=vlib.ROOT, timeout=1800)
        if rc != 0:
            raise CheckError("K.C20.driver", o)
        files, meta = self._load(d)
        outs = vlib.run_case_files(files)
        self.last_rerun = meta["cases"]
        fs = self._fails(outs, meta["shards"], files) + self._synthetic(meta["cases"])
        # the engine hands the shrunk INPUT to signature(): attach what was observed on it
        for i, c in enumerate(cases):
            if i < len(meta["cases"]):
                c["steps"] = meta["cases"][i].get("steps")
                mine = [f for f in fs if f["case"] == i and f["kind"] == 2]
                c["_fail"] = mine[0] if mine else None
        return fs

    @staticmethod
    def _f10_plan(plan):
        # an outbound straggler that is not flushed by Peer.Start (up) before its peer is removed / the device closed
        # is never given back on the unchanged tree (finding F10): such plans are not valid shrink results
        pending = set()
        for a in plan:
            f = a.split()
            if f[0] == "straggle" and len(f) > 3 and f[3] != "0":
                pending.add(f[1])
            elif f[0] == "up":
                pending.clear()
            elif f[0] == "remove" and len(f) > 1 and f[1] in pending:
                return True
            elif f[0] in ("removeall", "close", "fatalread") and pending:
                return True
        return bool(pending)      # every plan ends with close + gc

    def shrink_candidates(self, case):
        plan = case["plan"]
        if len(plan) == 1 and (plan[0].startswith("stall ") or plan[0].startswith("twowaiters")):
            return
        n = len(plan)
        chunk = max(n // 2, 1)
        while chunk >= 1:
            for i in range(0, n, chunk):
                cand = plan[:i] + plan[i + chunk:]
                if cand and len(cand) < n and not self._f10_plan(cand):
                    yield {"plan": cand, "cfg": case.get("cfg", [1, 1, 2]), "gen": "shrunk"}
            chunk //= 2

    POOLS = {1: "inbound-containers", 2: "outbound-containers", 3: "message-buffers", 4: "inbound-elements", 5: "outbound-elements",
             6: "staged-element-ownership", 7: "staged-while-interface-down", 8: "undeclared-container-in-stopped-peers-queue"}

    def signature(self, case, f):
        if case.get("_fail"):
            f = case["_fail"]
        if f.get("stall"):
            return "pool-exhaustion-stall-" + f["stall"]
        if str(case.get("gen", "")) == "directed:outbound-straggler-cycle" or self._f10_plan(case.get("plan", [])):
            return "outbound-straggler-never-collected"
        if f.get("stuck"):
            return "device-stuck"
        steps = case.get("steps") or []
        i = min(f["pos"] // 10, len(steps) - 1)
        ev = steps[i]["ev"].split()[0] if i >= 0 else "none"
        pool = self.POOLS.get(f["pos"] % 10, "p%d" % (f["pos"] % 10))
        if f.get("kind") == 2 and f["pos"] % 10 == 6:
            return "staged-element-owned-twice-on-%s" % ev
        if f.get("kind") == 2 and f["pos"] % 10 == 8:
            return "container-parked-in-stopped-peers-queue-on-%s" % ev
        if f.get("kind") == 2 and f["pos"] % 10 == 7:
            return "packets-staged-while-interface-down-on-%s" % ev
        exp = None
        kind = "mismatch"
        if i >= 0:
            c = steps[i]["counts"]
            if any(x > 1 << 31 for x in c):
                kind = "underflow"
        return "count-%s-%s-on-%s" % (kind, pool, ev)

    def nontrivial(self, c):
        steps = c.get("steps") or []
        if c["gen"].startswith("stall:"):
            return c.get("items", 0) > 0
        kinds = set()
        staged = False
        for s in steps:
            ev = s["ev"]
            kinds.add(ev.split()[0])
            for tok in ("TDrop 0", "TDrop 1", "TDrop 2", "TDrop 3", "TRoute", "DSkip", "DHs 0", "DHs 1", "DHs 2", "DHs 3", "DHs 4", "DHs 5", "DHs 6", "DHs 7", "DHs 8"):
                if tok in ev:
                    kinds.add(tok)
            for v in range(7):
                if "DData" in ev and (" %d;" % v in ev or ev.endswith(" %d]" % v)):
                    kinds.add("DData-v%d" % v)
            if s["staged_elems"] > 0:
                staged = True
        return staged and len(kinds) >= 6

    def sample(self, c):
        return {"gen": c.get("gen"), "cfg": c.get("cfg"), "plan": c["plan"][:12], "actions": len(c["plan"]),
                "steps": len(c.get("steps") or []), "counts": [s["counts"] for s in (c.get("steps") or [])[:12]]}


def check(tier, seed):
    return vlib.engine(Prop(), tier, seed)


def replay(path):
    obj = json.load(open(path))
    p = Prop()
    case = obj.get("input") or obj
    if isinstance(case, list):
        case = case[0]
    fs = p.run_cases([case])
    c = p.last_rerun[0]
    print(json.dumps({"failures": fs, "gen": c.get("gen"), "stall": c.get("stall"), "stuck": c.get("stuck"),
                      "steps": [{"ev": s["ev"], "counts": s["counts"], "staged": [s["staged_elems"], s["staged_conts"]], "ownership_defects": s.get("ownership_defects", 0), "autodraining": s.get("autodraining")}
                                for s in (c.get("steps") or [])][-12:]}))
    if any(f["kind"] == 2 for f in fs):
        print("VIOLATION property=C20 replay=%s" % path)
        return 1
    return 0
