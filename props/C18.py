# C18 — socket-layer UDP GSO/GRO transparency: Coq proof over a mirror of coalesceMessages /
# splitCoalescedMessages against a kernel model, correspondence on the real functions (verif exports),
# the specification evaluated in Coq on the implementation's output, and StdNetBind pairs over loopback.
import json, os
import vlib
from vlib import CheckError

STAT_NAMES = ["send_joined", "send_new_over_max_payload", "send_new_larger_than_gso", "send_new_no_capacity",
              "send_new_64_segments", "send_new_after_short_tail", "send_gso_set_at_last_buffer",
              "send_gso_set_when_closing", "send_batches", "send_single_datagram_messages",
              "recv_split_messages", "recv_unsplit_messages", "recv_stop_at_N0", "recv_overflow_error",
              "recv_getgso_error", "recv_segments_out", "send_new_zero_length_datagram",
              "sendloop_cases", "sendloop_partial_writes", "sendloop_injected_failures"]


def kernel_sizes(out):
    """sizes on the wire for the observed send vector (python copy of kernel_gso_send, sizes only;
    used for signatures only, never for the verdict)."""
    res = []
    for m in out:
        n, g = m["len"], (m["gso"][-1] if m["gso"] else 0)
        if g == 0 or n <= g:
            res.append(n)
        else:
            while n > 0:
                res.append(min(g, n))
                n -= g
    return res


class Prop:
    pid = "C18"
    vo_check = ["theories/UdpGso/Check.vo", "theories/Gen/GsoAst.vo"]
    vo_props = ["theories/Props/C18.vo"]
    k_names = ["sendloop(StdNetBind.send under an injected oracle of per-call acceptance counts/failures via VerifSendLoop == UdpGso.Model.send_loop: "
               "order and multiplicity of the messages handed to the kernel, error flag)",
               "coalesce(conn.coalesceMessages via VerifCoalesceMessages == UdpGso.Model.coalesce: count, payload bytes, cap, sticky control, UDP_SEGMENT values, Addr)",
               "split(conn.splitCoalescedMessages via VerifSplitCoalescedMessages == UdpGso.Model.split: n, error class, N/Addr/bytes of every slot)",
               "loopback(StdNetBind pair over 127.0.0.1 and ::1 delivers batches of 1..128 intact, offloads on and off; "
               "StdNetBind -> plain UDP socket shows the wire datagram by datagram incl. zero-length datagrams and sticky-source endpoints; "
               "two binds sending and receiving synchronously reuse the pooled message vectors and every receive call returns exactly "
               "the outstanding datagrams; the same send loop with a limited writer forwarding to the real socket (partial writes), and the "
               "public Send of a bind whose first sendmmsg fails with EIO (GSO disabled, batch resent from the pooled vector): the plain "
               "socket still sees the batch (also when the kernel sent the lone datagrams in front of the refused merged message before reporting EIO: "
               "nothing may go out twice); ONE dual-stack bind sending to alternating 127.0.0.1 / ::1 / second local IPv6 destinations from one "
               "goroutine (pooled destination address reused): every datagram arrives at its own destination; plain UDP sender -> bind without "
               "UDP_GRO, bursts with empty datagrams in one recvmmsg batch after a longer batch: every non-empty datagram keeps its size, "
               "bytes and source; the receiving bind opened with UDP_GRO off on one of its two sockets (each family uses its own rx offload "
               "flag); one bind opened, used, closed and opened again (IPv4 and IPv6 send and receive after every Open); validates UdpGso.KernelSpec and the glue around the modelled core)"]
    rule = ("send vectors from one PRNG: equal/shrinking/growing runs, size 1, wireguard-like sizes, runs of 63..66 and 127/128 "
            "equal datagrams, totals crossing the 65507/65527 maximum, capacity exhaustion (cap = len + k*size), short tail then "
            "continuing, control buffer too small, v4/v6, with/without sticky source; receive vectors: GRO trains in receiveIP's "
            "126/128 layout and small layouts, singles, plus hand-made malformed kernel input (overflow, truncation, gso > N, "
            "garbage control message, hole); zero-length datagrams on the send side (generator withzero, corpus) and in the wire "
            "passes; on the receive side only in the one dedicated scenario (known finding); "
            "non-trivial = send vector in which at least one message was merged and at least one run was ended, or receive "
            "vector in which a merged message was split; distinct by content hash")
    assumptions = ["kernel half is a stated model (UdpGso/KernelSpec.v): UDP_SEGMENT cuts the payload every gso_size bytes, "
                   "EMSGSIZE above the family maximum, EINVAL above 64 segments; UDP_GRO returns trains of equal-size datagrams "
                   "with a shorter non-empty last one and the segment size in a control message only on merged skbs",
                   "received datagrams are non-empty (an empty one ends the split: known finding, refuted in the model and "
                   "reproduced on the real code); sent datagrams may be empty since /repo ba89367 (the pre-fix code is kept in "
                   "UdpGso/OldModel.v with its refutation)",
                   "msgs[i].OOB has length 0 and capacity >= sticky control + one UDP_SEGMENT message (StdNetBind's pool)",
                   "buffers passed to Send do not share backing arrays (device gives each element its own array)",
                   "every receive buffer holds the largest datagram (device: 65535 bytes)"]
    trusted_extra = ["translator harness/cmd/gsoast (go/parser: body of coalesceMessages as a deep-embedded AST over the model's buf / msg records; interpreter ints are Z without wrap-around (lengths < 2^16, capacities < 2^62 assumed); unrecognised constructs become Unknown nodes; notes/C18-coal-ast.md)",
                     "Base/Ints.v: primitive Uint63 literals carry sizes and run descriptions in generated case files only",
                     "harness run-length encoder of byte strings (pattern runs; decoded and compared byte for byte in Go before use)",
                     "conn/verif_c18_linux.go: sets ep.src, switches offloads off on an open bind (add-only, verif tag)",
                     "conn/verif_c18b_linux.go: runs StdNetBind.send with a harness writer, replaces the packet conn Send writes to "
                     "(fault injection: partial sendmmsg acceptance, EIO) (add-only, verif tag)",
                     "conn/verif_c18c_linux.go: a control function run on the sockets the package opens (UDP_GRO off on one family) (add-only, verif tag)"]

    def __init__(self):
        self.dir = os.path.join(vlib.OUT, "C18")
        # translator G2: coalesceMessages regenerated from the source on every run
        self.translators = [lambda: vlib.gen_file("gsoast", os.path.join("Gen", "GsoAst.v"), ["-repo", vlib.REPO])]
        self.extra_coverage = {}
        self.loop_fail_idx = {}
        self.emitted = set()
        self.known_seen = []

    # ---- running the Go harness -------------------------------------------------------------
    def _load(self, d):
        meta = json.load(open(os.path.join(d, "cases.json")))
        files = [os.path.join(d, s["file"]) for s in meta["shards"]]
        return meta, files

    @staticmethod
    def _passes(lb):
        """(name, {v4:…, v6:…}) for every pass recorded: pair passes offload/nooffload (bind -> bind),
        wire_* (bind -> plain UDP socket, zero-length and sticky-source batches), pool_* (two-way, synchronous)."""
        out = []
        for k in sorted(lb):
            v = lb[k]
            if isinstance(v, dict) and ("v4" in v or "v6" in v) and k not in ("flags",):
                if all(isinstance(x, dict) and "failures" in x for x in v.values()):
                    out.append((k, v))
            elif k == "corpus" and isinstance(v, dict):
                out.extend(Prop._passes(v))
        return out

    def _loop_failures(self, meta):
        res = []
        lb = meta.get("loopback") or {}
        for pas, v in self._passes(lb):
            for fam in ("v4", "v6"):
                for f in (v.get(fam) or {}).get("failures") or []:
                    res.append({"kind": "loopback", "gen": "loopback", "family": f.get("family", fam),
                                "pass": f.get("pass", pas), "sizes": f.get("sizes"), "caps": f.get("caps"),
                                "sticky": f.get("sticky", False), "script": f.get("script"), "oracle": f.get("oracle"),
                                "got_sizes": f.get("got_sizes"), "first_diff": f.get("first_diff", 0),
                                "error": f.get("error", "")})
        return res

    def _loop_summary(self, meta):
        lb = meta.get("loopback") or {}
        s = {"flags": lb.get("flags"), "stray": lb.get("stray")}
        for pas, v in self._passes(lb):
            for fam in ("v4", "v6"):
                r = v.get(fam) or {}
                s["%s_%s" % (pas, fam)] = {"skipped": r.get("skipped", "not run"), "batches": r.get("batches", 0),
                                           "datagrams": r.get("datagrams", 0), "retried": r.get("retried", 0),
                                           "persistent_failures": len(r.get("failures") or [])}
        # informational: bind -> bind, the receive side drops the empty datagram (known finding, receive half)
        s["zero_length_bind_to_bind"] = meta.get("loopback_f4")
        return s

    def generate(self, seed, tier, mult):
        n = (150 if tier == "quick" else 1500) * mult
        shards = 16 if tier == "quick" else 48
        lb = 60 if tier == "quick" else 400
        exe = vlib.build_go("c18")
        rc, o = vlib.sh([exe, "-seed", str(seed), "-n", str(n), "-shards", str(shards), "-out", self.dir,
                         "-lbatches", str(lb), "-corpus", os.path.join(vlib.ROOT, "corpus", "C18")],
                        cwd=vlib.ROOT, timeout=1500)
        if rc != 0:
            raise CheckError("K.C18.driver", o)
        meta, files = self._load(self.dir)
        self.shards = meta["shards"]
        cases = meta["cases"]
        self.extra_coverage = {"loopback": self._loop_summary(meta), "known_findings_reproduced": self.known_seen}
        # persistent loopback differences become cases of their own (kind "loopback") with a kind-2 failure
        self.loop_fail_idx = {}
        for lf in self._loop_failures(meta):
            self.loop_fail_idx[len(cases)] = lf
            cases.append(lf)
        return files, cases

    def _coq_failures(self, shards, files, outputs):
        res = []
        for s, f in zip(shards, files):
            for (idx, kind, pos) in vlib.parse_n_tuples(vlib.coq_value(outputs[f], "bad")):
                res.append({"case": s["first"] + idx, "kind": kind, "pos": pos})
        return res

    F4_KEYS = ("zero-length-datagram-coalesced-away", "zero-length-datagram-terminates-split")

    def failures(self, outputs, files, cases):
        res = self._coq_failures(self.shards, files, outputs)
        for idx, lf in self.loop_fail_idx.items():
            res.append({"case": idx, "kind": 2, "pos": lf.get("first_diff", 0), "loopback": True})
        # The F4 scenarios fail on every run.  Once their keys are listed in known_findings.txt they are
        # reported here (KNOWN-FINDING line, exactly as the engine would) and taken out of the list, so
        # that the engine's "a known finding explains the mismatches" rule cannot hide an unrelated
        # model/code difference (kind 1) behind them.  Everything else goes through the engine.
        known = vlib.known_findings(self.pid)
        out = []
        for f in res:
            if f["kind"] == 2 and not f.get("loopback"):
                sig = self.signature(cases[f["case"]], f)
                if sig in self.F4_KEYS and sig in known:
                    if sig not in self.emitted:
                        vlib.emit_known(self.pid, known[sig])
                        self.emitted.add(sig)
                    self.known_seen.append({"key": sig, "case": f["case"], "gen": cases[f["case"]].get("gen")})
                    continue
            out.append(f)
        self.extra_coverage["known_findings_reproduced"] = self.known_seen
        return out

    def stats(self, outputs):
        tot = [0] * len(STAT_NAMES)
        for o in outputs.values():
            v = vlib.parse_n_list(vlib.coq_value(o, "st"))
            tot = [a + b for a, b in zip(tot, v)]
        return dict(zip(STAT_NAMES, tot))

    def run_cases(self, cases):
        d = os.path.join(self.dir, "rerun")
        os.makedirs(d, exist_ok=True)
        for f in os.listdir(d):
            if f.startswith("cases_C18_"):
                os.remove(os.path.join(d, f))
        # model cases and loopback cases are run separately so that the indices stay simple
        model_idx = [i for i, c in enumerate(cases) if c.get("kind") != "loopback"]
        loop_idx = [i for i, c in enumerate(cases) if c.get("kind") == "loopback"]
        res = []
        self.last_rerun = [None] * len(cases)
        exe = vlib.build_go("c18")
        if model_idx:
            inp = os.path.join(d, "in.json")
            json.dump([cases[i] for i in model_idx], open(inp, "w"))
            rc, o = vlib.sh([exe, "-replay", inp, "-out", d, "-loopback=false", "-nof4"], cwd=vlib.ROOT, timeout=900)
            if rc != 0:
                raise CheckError("K.C18.driver", o)
            meta, files = self._load(d)
            outs = vlib.run_case_files(files)
            for f in self._coq_failures(meta["shards"], files, outs):
                f["case"] = model_idx[f["case"]]
                res.append(f)
            for j, i in enumerate(model_idx):
                self.last_rerun[i] = meta["cases"][j]
                # keep the observed outputs with the candidate (signature() looks at them)
                for key in ("out", "nret", "status", "outn", "outidx"):
                    if key in meta["cases"][j]:
                        cases[i][key] = meta["cases"][j][key]
        for i in loop_idx:
            inp = os.path.join(d, "in_loop.json")
            c = cases[i]
            json.dump([{"kind": "loopback", "family": c["family"], "pass": c["pass"], "sizes": c["sizes"],
                        "caps": c.get("caps"), "sticky": bool(c.get("sticky")), "script": c.get("script"),
                        "oracle": c.get("oracle")}],
                      open(inp, "w"))
            d2 = os.path.join(d, "loop")
            os.makedirs(d2, exist_ok=True)
            rc, o = vlib.sh([exe, "-replay", inp, "-out", d2, "-nof4"], cwd=vlib.ROOT, timeout=300)
            if rc != 0:
                raise CheckError("K.C18.driver", o)
            meta = json.load(open(os.path.join(d2, "cases.json")))
            lfs = self._loop_failures(meta)
            if lfs:
                res.append({"case": i, "kind": 2, "pos": lfs[0].get("first_diff", 0), "loopback": True})
                self.last_rerun[i] = lfs[0]
                for key in ("got_sizes", "error", "first_diff"):
                    cases[i][key] = lfs[0].get(key)
            else:
                self.last_rerun[i] = {"kind": "loopback", "delivered": "intact"}
        return res

    # ---- shrinking --------------------------------------------------------------------------
    def shrink_candidates(self, case):
        k = case.get("kind")
        if k == "loopback" and case.get("pass") == "rxplain":
            sc = case.get("script") or []
            if len(sc) == 2:
                burst = sc[1]["sizes"]
                for i in range(len(burst)):
                    b2 = burst[:i] + burst[i + 1:]
                    if b2:
                        c = dict(case)
                        c["script"], c["sizes"] = [sc[0], {"from": 1, "sizes": b2}], b2
                        yield c
            return
        if k == "loopback" and case.get("script"):
            # sequential script: drop steps (the last one is the failing step)
            sc = case["script"]
            for i in range(len(sc) - 1):
                c = dict(case)
                c["script"] = sc[:i] + sc[i + 1:]
                yield c
            return
        if k == "loop":
            L, o = case["L"], [x for x in case["oracle"] if x != 4096]
            for i in range(len(o)):
                yield {"kind": "loop", "gen": case.get("gen"), "L": L, "oracle": o[:i] + o[i + 1:]}
            for L2 in (L // 2, L - 1):
                if 1 <= L2 < L:
                    yield {"kind": "loop", "gen": case.get("gen"), "L": L2, "oracle": o}
            return
        if k == "loopback" and case.get("pass") in ("wire_partial", "reopen"):
            return
        if k in ("send", "loopback"):
            sizes, caps = case["sizes"], case.get("caps") or [65535] * len(case["sizes"])
            n = len(sizes)
            lim = 12 if k == "loopback" else 96
            cnt = 0
            chunk = max(n // 2, 1)
            while chunk >= 1 and cnt < lim:
                for i in range(0, n, chunk):
                    s2, c2 = sizes[:i] + sizes[i + chunk:], caps[:i] + caps[i + chunk:]
                    if s2 and len(s2) < n:
                        c = dict(case)
                        c["sizes"], c["caps"] = s2, c2
                        c.pop("out", None)
                        cnt += 1
                        yield c
                chunk //= 2
        elif k == "recv":
            # drop one datagram of a train (keeping N and the control value consistent)
            slots = case["slots"]
            for si, s in enumerate(slots):
                if len(s.get("sizes") or []) > 1 and s.get("gso", 0) > 0:
                    for di in range(len(s["sizes"])):
                        s2 = dict(s)
                        s2["sizes"] = s["sizes"][:di] + s["sizes"][di + 1:]
                        s2["seeds"] = s["seeds"][:di] + s["seeds"][di + 1:]
                        if s["n"] != sum(s["sizes"]) or s2["sizes"][0] != s["sizes"][0]:
                            continue
                        s2["n"] = sum(s2["sizes"])
                        if len(s2["sizes"]) == 1:
                            s2["gso"] = 0
                        c = dict(case)
                        c["slots"] = slots[:si] + [s2] + slots[si + 1:]
                        if case.get("expect"):
                            before = sum(len(x.get("sizes") or []) for x in slots[:si]) + di
                            c["expect"] = case["expect"][:before] + case["expect"][before + 1:]
                        yield c

    # ---- classification ---------------------------------------------------------------------
    def signature(self, case, f):
        k = case.get("kind")
        if k == "loopback" and case.get("pass") == "reopen":
            return "bind-reopened-after-close-%s-datagrams-not-delivered" % case.get("family")
        if k == "loopback" and str(case.get("pass", "")).startswith("asym_"):
            return "rx-offload-differs-per-family-%s-batch-not-delivered-intact" % case.get("family")
        if k == "loopback" and case.get("pass") in ("wire_eio", "wire_eio_partial"):
            sizes, got = case.get("sizes") or [], case.get("got_sizes") or []
            if not case.get("error"):
                for j in range(1, len(sizes)):
                    if got == sizes[:j] + sizes:
                        # the datagrams in front of the refused merged message went out before the error and again in the resend
                        return "gso-disable-retry-resends-datagrams-already-sent"
                if len(got) > len(sizes):
                    return "gso-disable-retry-datagram-cut-by-stale-udp-segment"
            return "loopback-%s-%s-batch-not-delivered-intact" % (case.get("family"), case.get("pass"))
        if k == "loopback" and case.get("pass") == "rxplain":
            sc = case.get("script") or []
            burst = sc[-1]["sizes"] if sc else (case.get("sizes") or [])
            if 0 in burst:
                return "empty-datagram-breaks-plain-receive-batch"
            return "plain-receive-batch-not-delivered-intact"
        if k == "loopback" and str(case.get("pass", "")).startswith("dual_"):
            sc = case.get("script") or []
            if len(sc) >= 2 and sc[-1]["from"] in (1, 2) and any(st["from"] == 0 for st in sc[:-1]):
                return "dualstack-v6-after-v4-wrong-destination"
            return "dualstack-datagram-not-delivered-to-its-destination"
        if k == "loopback":
            return "loopback-%s-%s-batch-not-delivered-intact" % (case.get("family"), case.get("pass"))
        if k == "send":
            if f["pos"] >= 2000:
                return "send-message-not-addressed-to-endpoint-or-sticky-source-lost"
            if f["pos"] >= 1000:
                return "send-message-breaks-kernel-limit"
            sizes = case["sizes"]
            if 0 in sizes and case.get("out") is not None:
                wire = kernel_sizes(case["out"])
                if wire == [s for s in sizes if s != 0] and sizes[0] != 0:
                    return "zero-length-datagram-coalesced-away"
                return "zero-length-datagram-other-wire-difference"
            return "send-wire-differs-from-batch"
        if k == "loop":
            if case.get("status") == 2:
                return "send-loop-panics-under-partial-writes"
            if case.get("status") == 1:
                return "send-loop-reports-error-without-kernel-failure"
            return "send-loop-skips-or-repeats-messages-after-partial-writes"
        if k == "recv":
            exp = case.get("expect") or []
            zero = [i for i, e in enumerate(exp) if e[0] == 0]
            if zero and case.get("status") == 0 and case.get("nret") == zero[0]:
                return "zero-length-datagram-terminates-split"
            if case.get("status"):
                return "recv-split-error-on-valid-trains"
            return "recv-split-differs-from-datagrams"
        return "unknown"

    def nontrivial(self, c):
        if c.get("kind") == "send":
            out = c.get("out") or []
            return any(m["gso"] for m in out) and len(out) >= 2
        if c.get("kind") == "recv":
            return any(s.get("gso", 0) > 0 and len(s.get("sizes") or []) > 1 for s in c.get("slots") or []) and c.get("status") == 0
        if c.get("kind") == "loop":
            return len([x for x in c.get("oracle") or [] if 0 < x < c.get("L", 0)]) >= 2
        return False

    def sample(self, c):
        if c.get("kind") == "send":
            return {"kind": "send", "gen": c.get("gen"), "is6": c.get("is6"), "sticky": c.get("sticky"),
                    "sizes": c["sizes"][:16], "caps": (c.get("caps") or [])[:16], "datagrams": len(c["sizes"]),
                    "messages": [[m["len"], m["gso"]] for m in (c.get("out") or [])[:8]]}
        if c.get("kind") == "recv":
            return {"kind": "recv", "gen": c.get("gen"), "L": c.get("L"), "first": c.get("first"),
                    "slots": [[s["n"], s["gso"]] for s in c.get("slots", []) if s["n"]][:8],
                    "returned_n": c.get("nret"), "status": c.get("status")}
        if c.get("kind") == "loop":
            return {"kind": "loop", "gen": c.get("gen"), "L": c.get("L"), "oracle": [x for x in c.get("oracle", []) if x != 4096][:16],
                    "transmitted": len(c.get("outidx") or []), "status": c.get("status")}
        return c


def check(tier, seed):
    return vlib.engine(Prop(), tier, seed)


def replay(path):
    obj = json.load(open(path))
    p = Prop()
    case = obj.get("input") or obj
    if isinstance(case, list):
        case = case[0]
    fs = p.run_cases([case])
    got = p.last_rerun[0]
    print(json.dumps({"failures": fs, "observed": got}, default=str)[:4000])
    spec = [f for f in fs if f["kind"] == 2]
    if spec:
        sig = p.signature(got if isinstance(got, dict) and got.get("kind") == case.get("kind") else case, spec[0])
        print("signature=%s" % sig)
        print("VIOLATION property=C18 replay=%s" % path)
        return 1
    return 0
