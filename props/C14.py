# C14 — timers: proof of the timer automaton (Coq) + REAL-TIME trace validation of the running device.
import json, os
import vlib
from vlib import CheckError

CODES = {
    1: "retransmission earlier than 5 s", 2: "retransmission late or missing", 3: "more than 20 transmissions / initiation after giving up",
    4: "keepalive after receive-only late or missing", 5: "keepalive after receive-only early",
    6: "new handshake after unanswered send late or missing", 7: "new handshake after unanswered send early",
    8: "persistent keepalive late or missing", 9: "persistent keepalive early",
    10: "unexpected datagram / queued packets out of order / discarded packets sent", 11: "queued packets or response not sent in time",
    12: "unexpected TUN write", 13: "TUN write late or missing", 14: "needless handshake although the peer answered",
    15: "packets queued without session and without a handshake attempt, and no initiation follows",
    21: "a timer's output is missing", 22: "an owed output is missing", 23: "an owed output came late", 24: "another datagram than the one owed",
    25: "a timer fired late", 26: "a datagram that no step and no timer of the model explains", 27: "unexpected TUN write (model)",
    28: "TUN write late (model)", 30: "inconclusive: input inside a timer's firing window", 40: "scenario could not be run",
}


class Prop:
    pid = "C14"
    vo_check = ["theories/Timers/Check.vo"]
    vo_props = ["theories/Props/C14.vo"]
    k_names = ["trace(real-time traces of device timers/staging within [deadline-2ms, deadline(+333ms jitter)+500ms] of Timers.Model)"]
    rule = ("real-time scenarios, each on its own device (sim bind/tun) with a remote party from the white paper, all run concurrently: "
            "unanswered initiation (retransmission gaps, give-up, with/without persistent keepalive; the bind refusing the 1st/2nd initiation), response to the k-th transmission only, "
            "interface bounce (Down/Up) within 1.2 s of a handshake message with/without persistent keepalive, answered or not, "
            "give-up with something queued on a first handshake and on a re-handshake after an earlier session (key aged 181 s and attempt counter preset by hooks in quick, full 20 transmissions in thorough) followed by new traffic, "
            "receive-only (keepalive at 10 s, second data while pending), unanswered send (new handshake at 15 s + jitter; answered => none; answered exchange first, then an unanswered send; the cancelling arrival being in turn data, keepalive, peer initiation with confirmation withheld, response), "
            "peer created with its persistent keepalive by one UAPI set on a device that is up (vs. configured before Up), also as a non-last section of a multi-peer set, "
            "persistent keepalive with a completely failed handshake cycle and no local traffic (new cycle one interval after the last transmission), "
            "second episodes on the same peer (second attempt after a give-up must be retransmitted again, second give-up, second handshake answered and used, interval switched off and on again over UAPI), "
            "fresh non-retry initiation while the retransmit timer is pending (lastSentHandshake aged by hook), 2..6 separately staged batches at give-up and at peer stop, "
            "persistent keepalive (1/2/3/.. s, interval restarted by a receive), 1/127/128/129/300/random TUN batches of 1..4 packets staged "
            "before completion in both roles; start offsets, batch sizes and delays from one PRNG; non-trivial = the trace contains at least "
            "one timer-driven output or a staged flush; distinct by content hash (times included)")
    assumptions = ["one model step is atomic; the device spreads it over several goroutines",
                   "wall-clock accuracy of time.AfterFunc and goroutine latency are outside the model: observed with lower tolerance 2 ms and upper slack 500 ms, one re-run before a miss counts",
                   "an input falling inside a timer's firing window makes the trace inconclusive (counted, not failed)",
                   "key-age thresholds (120/165/180 s) are modelled but not exercised here (scenarios are shorter); see C07"]
    trusted_extra = ["hooks VerifShiftKeypairAges (verif_device.go) and VerifSetHandshakeAttempts (verif_c14.go) place the device in states that take 100-180 s to reach; both are events of the model",
                     "Base/Ints.v: primitive Uint63 literals carry event codes/times in generated case files only",
                     "harness clock: time.Now() (monotonic) stamps of inputs (before delivery) and of Bind.Send / TUN Write"]

    def __init__(self):
        self.dir = os.path.join(vlib.OUT, "C14")
        self.extra_coverage = {}
        self.reruns = 0
        self.inconclusive = 0
        self.first_run_misses = []

    def _run_go(self, args, outdir):
        exe = vlib.build_go("c14")
        rc, o = vlib.sh([exe] + args + ["-out", outdir], cwd=vlib.ROOT, timeout=900)
        if rc != 0:
            raise CheckError("K.C14.driver", o)
        meta = json.load(open(os.path.join(outdir, "cases.json")))
        files = [os.path.join(outdir, s["file"]) for s in meta["shards"]]
        self.last_meta = meta
        lat = self.extra_coverage.setdefault("runtime_timer_latency_max_ms", [])
        lat.append(meta.get("timer_latency_max_ms"))
        return files, meta

    def generate(self, seed, tier, mult):
        files, meta = self._run_go(["-seed", str(seed), "-tier", tier, "-corpus", os.path.join(vlib.ROOT, "corpus", "C14")], self.dir)
        self.shards = meta["shards"]
        self.harness_wall = meta.get("wall_s")
        return files, meta["cases"]

    @staticmethod
    def _parse(shards, files, outputs, cases):
        res = []
        for s, f in zip(shards, files):
            for (idx, kind, code, pos) in vlib.parse_n_tuples(vlib.coq_value(outputs[f], "bad")):
                res.append({"case": s["first"] + idx, "kind": kind, "code": code, "pos": pos, "what": CODES.get(code, "?")})
        # an input inside a timer's firing window makes the whole trace inconclusive
        inconcl = {r["case"] for r in res if r["kind"] == 3}
        res = [r for r in res if r["kind"] == 3 or r["case"] not in inconcl]
        flagged = {r["case"] for r in res if r["kind"] in (1, 2)} | inconcl
        for i, c in enumerate(cases):
            if c.get("err") and i not in flagged:
                res.append({"case": i, "kind": 1, "code": 40, "pos": 0, "what": c["err"]})
        return res

    def failures(self, outputs, files, cases):
        res = self._parse(self.shards, files, outputs, cases)
        self.inconclusive += len({r["case"] for r in res if r["kind"] == 3})
        res = [r for r in res if r["kind"] in (1, 2)]
        bad = sorted({r["case"] for r in res})
        self._deviations(cases)
        # a scenario whose only failures are listed known findings is not re-run (it reproduces every time)
        known = vlib.known_findings(self.pid)
        known_only = [i for i in bad
                      if all(r["kind"] == 2 and self.signature(cases[i], r) in known for r in res if r["case"] == i)]
        keep = [r for r in res if r["case"] in known_only]
        bad = [i for i in bad if i not in known_only]
        res = [r for r in res if r["case"] not in known_only]
        if not bad:
            return keep
        # ONE re-run of each missed scenario before the miss counts (timing on a shared machine)
        self.first_run_misses = [{"spec": cases[i]["spec"], "failures": [r for r in res if r["case"] == i][:4]} for i in bad]
        self.reruns += len(bad)
        vlib.log("C14: re-running %d scenario(s) once: %s" % (len(bad), [cases[i]["spec"] for i in bad]))
        again = self.run_cases([cases[i] for i in bad])
        stalls = [st for st in (self.last_meta.get("stalls") or []) if st["late_us"] >= 200000]
        if again and stalls:
            # the process's own 10 ms watchdog timer was >= 200 ms late during the re-run: the machine,
            # not the device, was late; one more re-run of what still fails (recorded in the evidence)
            still = sorted({r["case"] for r in again})
            self.extra_coverage["extra_rerun_after_measured_stall"] = {"stalls": stalls[:5], "scenarios": [cases[bad[j]]["spec"] for j in still]}
            self.reruns += len(still)
            again2 = self.run_cases([cases[bad[j]] for j in still])
            rer = self.last_rerun
            again = [dict(r, case=still[r["case"]]) for r in again2]
            full = [None] * len(bad)
            for jj, j in enumerate(still):
                full[j] = rer[jj]
            self.last_rerun = full
        confirmed = []
        for j, i in enumerate(bad):
            fs = [r for r in again if r["case"] == j]
            if fs:
                cases[i] = dict(self.last_rerun[j], first_run=cases[i]["items"])
                for r in fs:
                    confirmed.append(dict(r, case=i))
        self.extra_coverage["first_run_misses_not_confirmed"] = [m for m, i in zip(self.first_run_misses, bad)
                                                                 if not any(r["case"] == i for r in confirmed)]
        return keep + confirmed

    def _deviations(self, cases):
        agg = {}
        for c in cases:
            for k, vs in (c.get("meas") or {}).items():
                a = agg.setdefault(k, [])
                a.extend(vs)
        self.extra_coverage["timing_deviation_ms"] = {k: {"n": len(v), "min": round(min(v), 3), "max": round(max(v), 3)}
                                                      for k, v in agg.items() if v}
        self.extra_coverage["tolerances"] = {"lower_ms": 2, "upper_slack_ms": 500, "jitter_ms": "0..333"}
        self.extra_coverage["scenario_errors"] = [c["err"] for c in cases if c.get("err")]

    def stats(self, outputs):
        tot = [0] * 7
        for o in outputs.values():
            v = vlib.parse_n_list(vlib.coq_value(o, "st"))
            tot = [a + b for a, b in zip(tot, v)]
        names = ["retransmit_firings", "keepalive_firings", "new_handshake_firings", "zero_key_firings", "persistent_firings",
                 "silent_firings", "inputs"]
        d = dict(zip(names, tot))
        d["inconclusive_traces"] = self.inconclusive
        d["scenarios_rerun"] = self.reruns
        return d

    def run_cases(self, cases):
        d = os.path.join(self.dir, "rerun")
        os.makedirs(d, exist_ok=True)
        inp = os.path.join(d, "in.json")
        json.dump([{"spec": c["spec"]} for c in cases], open(inp, "w"))
        files, meta = self._run_go(["-replay", inp], d)
        outs = vlib.run_case_files(files)
        self.last_rerun = meta["cases"]
        res = self._parse(meta["shards"], files, outs, meta["cases"])
        return [r for r in res if r["kind"] in (1, 2)]

    def shrink_candidates(self, case):
        return iter(())     # a scenario is already minimal; every re-execution costs real time

    def signature(self, case, f):
        return "%s-%s-code%d" % (case["spec"].get("kind"), case["spec"].get("var") or "plain", f.get("code", 0))

    def nontrivial(self, c):
        return not c.get("err") and any(i["c"] in (10, 12, 13) for i in c["items"])

    def sample(self, c):
        return {"spec": c["spec"], "items_first": [[i["c"], i["t"], i.get("a", 0), i.get("b", 0)] for i in c["items"][:10]],
                "n_items": len(c["items"]), "deviation_ms": c.get("meas")}


def check(tier, seed):
    return vlib.engine(Prop(), tier, seed)


def replay(path):
    obj = json.load(open(path))
    p = Prop()
    case = obj.get("input") or obj
    if "spec" not in case:
        case = {"spec": case}
    vlib.gen_constants()
    vlib.coq_make(p.vo_check)
    fs = p.run_cases([case])
    print(json.dumps({"failures": fs, "observed": p.last_rerun[0]["items"][:400]}))
    if any(f["kind"] == 2 for f in fs):
        print("VIOLATION property=C14 replay=%s" % path)
        return 1
    return 1 if fs else 0
