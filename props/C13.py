# C13 — control-plane / lifecycle safety under any interleaving.
#
# Own flow (no per-case model comparison for stress runs, so vlib.engine does not fit):
#   1. G + Coq: Lifecycle/{Automaton,Locks,LockProofs,AutomatonProofs,Proofs,Check}.v, Props/C13.v
#      (theorems about the MODELS: state machine and lock discipline).
#   2. deterministic replays of the `..._deadlocks` schedules on the real device, each in a child
#      process with a timeout (a deadlocked device cannot be cleaned up); the child prints the hang
#      signature (sorted set of blocked device call chains -> key).
#   3. stress on the real device: several seeds in parallel processes, some built with -race;
#      per-call watchdog (hang -> signature), panic capture (exit status + stderr), race reports
#      (GORACE log files), goroutine census after Close (in the harness).
#   4. the bind Open/Close/Send log merged with the call log of every round is judged by the
#      monitor of Lifecycle/Automaton.v inside Coq (Lifecycle/Check.v, vm_compute).
# Violations are keyed; keys listed in known_findings.txt are printed as KNOWN-FINDING.
import glob, json, os, re, shutil, subprocess, sys, time
from concurrent.futures import ThreadPoolExecutor
import vlib
from vlib import CheckError

PID = "C13"
REPLAYS = ["f3a", "f3b", "f3c", "f3d", "upkey", "collide", "close2", "closefault", "tunfail", "bindfault", "sendinflight", "fullqueue"]
REPLAY_DOC = {
    "f3a": "BindUpdate (net.Lock -> peers.RLock) vs UAPI remove peer (peers.Lock, Peer.Stop waits for the sender blocked in SendBuffers on net.RLock); Proofs.bindupdate_vs_removepeer_deadlocks",
    "f3b": "UAPI private_key equal to a peer's key (staticIdentity.Lock + peers.Lock, Peer.Stop waits for the sender) vs the sender's rekey (CreateMessageInitiation -> staticIdentity.RLock); Proofs.setprivatekey_collision_vs_sender_rekey_deadlocks",
    "f3c": "UAPI private_key (staticIdentity.Lock, ExpireCurrentKeypairs -> handshake.Lock) vs ConsumeMessageResponse (handshake.RLock -> staticIdentity.RLock); Proofs.setprivatekey_vs_consume_response_deadlocks",
    "collide": "scenario that must return: IpcSet(private_key = a running peer's key) on an up device without traffic / aged key / handshake in flight, then IpcGet, Down, Close (three variants)",
    "close2": "scenario that must hold: two overlapping Close() calls while (A) a UAPI set on a stalled pipe holds ipcMutex / (B) Up is parked in bind.Open holding state.mu; nothing panics, device closed, goroutines gone",
    "closefault": "scenario that must hold: bind.Close reports an error although it closed and receive calls notice only after 300 ms; when Down / Close return no RoutineReceiveIncoming goroutine is parked in its loop",
    "f3d": "Down (peers.RLock, Peer.Stop waits for the peer's routine) vs that routine's rekey (CreateMessageInitiation -> staticIdentity.RLock) vs UAPI private_key, any key (staticIdentity.Lock -> peers.Lock); Proofs.down_vs_setprivatekey_vs_sender_rekey_deadlocks",
    "bindfault": "scenario that must hold: Up with a failing bind.Open, then a fwmark change refused by bind.SetMark on an up device; every later control call (IpcGet, fwmark, listen_port, Down, Up, Close) returns",
    "tunfail": "scenario that must hold: a fatal TUN read error under a running device; device.Wait() fires, every later call returns, bind closed, goroutines gone",
    "sendinflight": "scenario that must hold: a data send parked inside bind.Send (SendGate) while Down / BindUpdate / Close run; none of them may return before the send is released",
    "fullqueue": "scenario that must hold: a peer's outbound (sender parked in bind.Send) or inbound (receiver parked in tun.Write) queue exactly full (1024) when UAPI remove / Down / Close stop the peer; after the gate is released every call returns and all goroutines terminate",
    "upkey": "Up (peers.RLock in upLocked, keepalive -> CreateMessageInitiation -> staticIdentity.RLock) vs direct device.SetPrivateKey (staticIdentity.Lock -> peers.Lock); Proofs.up_keepalive_vs_direct_setprivatekey_deadlocks",
}
RUN_THEOREMS = ["Run.code_edges_minus_listed_inversions_climb", "Run.no_new_same_class_nesting",
                "Run.programs_within_code_edges_never_deadlock", "Run.model_minus_inversions_within_code_edges"]
K_NAMES = ["bind-log(observed Open/Close/Send + call log |= Automaton.holdsb, shape = Automaton.closeopenb)",
           "no-hang(every API call returns; watchdog with hang signature)",
           "no-race(-race build of the harness, GORACE logs)",
           "no-panic(child exit status / stderr)",
           "goroutines-after-Close(census of goroutines with device frames back to baseline)",
           "deadlock-replays(each ..._deadlocks schedule replayed on the real code, signature reported; plus the must-return scenario 'collide')"]
RULE = ("one round = a fresh device (sim bind/tun, 3 ref peers) driven by N concurrent callers running random plans of "
        "{Up, Down, BindUpdate, IpcSet(add/remove peer, replace_peers, listen_port, private_key, keepalive, endpoint, fwmark), IpcGet, MTU event, "
        "TUN bursts, Close mid-plan in 1/3 of the rounds} with network+TUN traffic and handshakes in both directions, then Down/Close (final Close by two goroutines in half of the rounds; in 1/5 of the rounds the sim bind reports an error from Close and its receive calls notice the close 45 ms late) and calls after Close; in 1/4 of the rounds every bind.Send is held 0.3-2.8 ms inside the sim bind's gate and bracketed by two events (send in flight while Down/Close/BindUpdate run); in 1/4 of the close-mid rounds and 1/6 of the final phases the device is closed by a fatal TUN read error (sim.Tun.FailRead) instead of Close; "
        "plans come from one PRNG (seed, round); excluded overlaps (the listed findings): direct BindUpdate || peer-set/private-key UAPI sets, "
        "private_key sets in rounds that answer the device's initiations, private_key equal to a peer's key, Down || private_key set; "
        "non-trivial = the round's trace has >= 2 bind opens and >= 1 quiet window after a clean Down (decided inside Coq by Check.nontrivial); "
        "distinct by hash of the plan")



CLASS_NAMES = ["state", "ipc", "peers", "pst", "trun", "net", "si", "hs", "kp", "itab", "ep", "aip", "tmod", "cc", "cg"]
# witness function -> plan operations that run it (for the directed search)
FOCUS_MAP = [("BindUpdate", ["bindupdate", "set_port"]), ("BindSetMark", ["set_fwmark"]), ("SetPrivateKey", ["set_key"]),
             ("RemoveAllPeers", ["set_replace_peers"]), ("RemovePeer", ["set_remove"]), ("removePeerLocked", ["set_remove"]),
             ("NewPeer", ["set_add"]), ("handlePublicKeyLine", ["set_add"]), ("handlePeerLine", ["set_endpoint", "set_keepalive", "set_add"]),
             ("handlePostConfig", ["set_add", "set_keepalive"]), ("IpcGetOperation", ["get"]), ("IpcSetOperation", ["set_add", "set_slow"]),
             ("upLocked", ["up"]), ("changeState", ["up", "down"]), ("Device.Up", ["up"]), ("downLocked", ["down"]), ("Device.Down", ["down"]),
             ("Device.Close", ["close"]), ("Peer.Stop", ["down", "set_remove"]), ("Peer.Start", ["up", "set_add"]),
             ("Timer", ["set_keepalive", "tunburst"]), ("expired", ["set_keepalive", "tunburst"]), ("Routine", ["tunburst"]),
             ("SendBuffers", ["tunburst", "down", "bindupdate", "set_port"]), ("Send", ["tunburst", "set_keepalive"]), ("Consume", ["tunburst"]), ("Create", ["tunburst"])]

# the functions in which each listed inversion occurs (E1-E6); a listed class pair at a NEW site is a new inversion
KNOWN_SITES = {(5, 2): {"Device.BindSetMark", "Device.BindUpdate", "Device.IpcGetOperation"},
               (6, 2): {"Device.ConsumeMessageInitiation", "Device.IpcGetOperation", "Device.NewPeer", "Device.SetPrivateKey"},
               (6, 3): {"Device.SetPrivateKey"}, (6, 4): {"Device.SetPrivateKey"}, (6, 5): {"Device.SetPrivateKey"},
               (7, 6): {"Device.ConsumeMessageResponse"}, (6, 6): {"Device.SetPrivateKey"}}

# calls on the device's conn.Bind that may run without device.net held (as the code has them today):
# the cookie reply, and closeBindLocked whose CALLER holds net.Lock
KNOWN_UNLOCKED_BIND_CALLS = {("Device.SendHandshakeCookie", "Send"), ("closeBindLocked", "Close")}

RUN_V = """From WG Require Import Base.Prelude Lifecycle.Locks Lifecycle.LockProofs Lifecycle.Edges Lifecycle.EdgeProofs Lifecycle.Proofs Lifecycle.EdgeCheck Gen.LockEdges.
Definition new_inv := Eval vm_compute in (new_inversions code_edges). Print new_inv.
Definition new_self := Eval vm_compute in (new_self_edges code_self_edges). Print new_self.
Definition gone := Eval vm_compute in (gone_inversions code_edges). Print gone.
Definition model_extra := Eval vm_compute in (model_not_in_code code_edges code_self_edges). Print model_extra.
Definition code_extra := Eval vm_compute in (code_not_in_model code_edges). Print code_extra.
(* the obligations proper: they fail to check when the source has a new inversion *)
Theorem code_edges_minus_listed_inversions_climb : edges_climb rank (code_minus_inversions code_edges) = true.
Proof. vm_compute. reflexivity. Qed.
Theorem no_new_same_class_nesting : new_self_edges code_self_edges = [].
Proof. vm_compute. reflexivity. Qed.
Theorem programs_within_code_edges_never_deadlock : forall ps,
  wf ps = true -> ranks_positive rank ps = true ->
  edges_incl (all_edges ps) (code_minus_inversions code_edges) = true -> never_deadlocks ps.
Proof. intros ps H1 H2 H3. exact (programs_within_edges_never_deadlock rank ps _ H1 H2 H3 code_edges_minus_listed_inversions_climb). Qed.
Theorem model_minus_inversions_within_code_edges :
  wf (device_programs false) && ranks_positive rank (device_programs false)
  && edges_incl (all_edges (device_programs false)) (code_minus_inversions code_edges) = true.
Proof. vm_compute. reflexivity. Qed.
Print Assumptions programs_within_code_edges_never_deadlock.
"""


def _pairs(text):
    return [tuple(int(x) for x in m) for m in re.findall(r'\((\d+), (\d+)\)', text)]


def lock_edges():
    """Extract the lock-order edges from the SOURCE of the tree under test, regenerate Gen/LockEdges.v,
    and check them against the rank / the listed inversions / the model inside Coq."""
    res = {"ok": False, "new": [], "new_self": [], "gone": [], "model_extra": [], "code_extra": [], "error": None}
    d = os.path.join(vlib.OUT, PID, "lockedges")
    os.makedirs(d, exist_ok=True)
    try:
        exe = vlib.build_go("c13locks")
    except CheckError as e:
        res["error"] = "extractor does not build: " + e.detail[-800:]
        return res
    tmpv, js = os.path.join(d, "LockEdges.v"), os.path.join(d, "edges.json")
    rc, o = vlib.sh([exe, "-repo", vlib.REPO, "-v", tmpv, "-json", js], timeout=120)
    if rc != 0:
        res["error"] = "extractor failed: " + o[-800:]
        return res
    j = json.load(open(js))
    res.update(edges=len(j["edges"]), functions=j["functions"], type_errors_ignored=j["type_errors_ignored"],
               unmapped_lock_classes=j["unmapped_lock_classes"])
    wit = {(e["From"], e["To"]): e for e in j["edges"] + j["self_edges"]}
    gen = os.path.join(vlib.COQ, "theories", "Gen", "LockEdges.v")
    with vlib.Lock("coq"):
        new = open(tmpv).read()
        if not os.path.exists(gen) or open(gen).read() != new:
            open(gen, "w").write(new)
    try:
        cmd, _ = vlib.coq_make(["theories/Gen/LockEdges.vo", "theories/Lifecycle/EdgeCheck.vo", "theories/Lifecycle/EdgeProofs.vo"])
        res["cmd"] = cmd
    except CheckError as e:
        res["error"] = "Coq build: " + e.detail[-800:]
        return res
    open(os.path.join(d, "LockEdgesRun.v"), "w").write(RUN_V)
    rc, o = vlib.sh(["timeout", "300", "coqc", "-Q", os.path.join(vlib.COQ, "theories"), "WG", "LockEdgesRun.v"], cwd=d)
    res["coqc_rc"] = rc

    def val(name):
        m = re.search(r'(?:^|\n)' + name + r'\s*=\s*(.*?)\n\s*:\s', o, re.S)
        return _pairs(m.group(1)) if m else None
    for k, n in (("new", "new_inv"), ("new_self", "new_self"), ("gone", "gone"), ("model_extra", "model_extra"), ("code_extra", "code_extra")):
        v = val(n)
        if v is None:
            res["error"] = "cannot read %s from coqc output: %s" % (n, o[-600:])
            return res
        res[k] = v

    def describe(e):
        w = wit.get(e, {}).get("W", {})
        return {"edge": "%s -> %s" % (CLASS_NAMES[e[0]], CLASS_NAMES[e[1]]), "classes": list(e), "func": w.get("func"), "at": w.get("pos"),
                "held_since": w.get("held_at"), "via": w.get("via"), "join": w.get("join", False)}
    res["new_detail"] = [describe(e) for e in res["new"] + res["new_self"]]
    for e, ks in KNOWN_SITES.items():
        for f in sorted(set(wit.get(e, {}).get("Sites", [])) - ks):
            res["new_detail"].append({"edge": "%s -> %s (listed inversion at a NEW site)" % (CLASS_NAMES[e[0]], CLASS_NAMES[e[1]]), "classes": list(e),
                                      "func": f, "at": None, "held_since": None, "via": None, "join": False})
    res["listed_inversions_seen"] = [describe(e) for e in [(5, 2), (6, 2), (6, 3), (6, 4), (6, 5), (7, 6), (6, 6)] if e in wit]
    # Send / Open / Close / SetMark on the bind must be made with device.net held (the model's SendBuffers and
    # BindUpdate programs hold it across the call; Down/Close/BindUpdate wait for in-flight sends through it)
    res["bind_calls"] = [b for b in j.get("bind_calls", []) if b["method"] in ("Send", "Open", "Close", "SetMark")]
    for b in res["bind_calls"]:
        if not b["holds_net"] and (b["func"], b["method"]) not in KNOWN_UNLOCKED_BIND_CALLS:
            res["new_detail"].append({"edge": "bind.%s called without device.net held" % b["method"], "classes": None, "func": b["func"], "at": b["pos"],
                                      "held_since": None, "via": "held: %s" % (b["held"] or []), "join": False})
    res["ok"] = rc == 0 and not res["new_detail"] and "Closed under the global context" in o
    if not res["ok"] and not res["new_detail"]:
        res["error"] = "per-run lock-edge theorems do not check: " + o[-800:]
    return res


def focus_ops(lk):
    ops = []
    for d in lk.get("new_detail", []):
        txt = " ".join(str(d.get(k) or "") for k in ("func", "via"))
        for pat, ks in FOCUS_MAP:
            if pat in txt:
                ops += [k for k in ks if k not in ops]
    return ops or ["up", "down", "bindupdate", "set_add", "set_remove", "set_key", "get"]

def _out(name):
    d = os.path.join(vlib.OUT, PID, name)
    shutil.rmtree(d, ignore_errors=True)
    os.makedirs(d, exist_ok=True)
    return d


def run_replay(mode, exe, timeout=150):
    """Run one deterministic deadlock replay in a child process."""
    try:
        p = subprocess.run([exe, "-mode", mode], cwd=vlib.ROOT, stdout=subprocess.PIPE, stderr=subprocess.PIPE,
                           text=True, errors="replace", timeout=timeout)
    except subprocess.TimeoutExpired as e:
        return {"replay": mode, "error": "child timed out after %ds" % timeout, "stdout": (e.stdout or "")[-2000:] if isinstance(e.stdout, str) else ""}
    for line in p.stdout.splitlines():
        line = line.strip()
        if line.startswith("{"):
            try:
                r = json.loads(line)
                r["rc"] = p.returncode
                return r
            except ValueError:
                pass
    return {"replay": mode, "error": "no result line", "rc": p.returncode, "stderr": (p.stderr if len(p.stderr) < 12000 else p.stderr[:8000] + "\n...\n" + p.stderr[-4000:]), "stdout": p.stdout[-1000:]}


def crash_violation(stderr):
    """Key for a panic / fatal error of the child: first wireguard frame of the crashing goroutine."""
    m = re.search(r'^(panic: .*|fatal error: .*)$', stderr, re.M)
    if not m:
        return None
    msg = m.group(1)
    tail = stderr[m.end():]
    fm = re.search(r'golang\.zx2c4\.com/wireguard/([\w/]+)\.([\w\(\)\*\.]+)\(', tail)
    frame = (fm.group(1).split("/")[-1] + "." + fm.group(2).replace("(*", "").replace(")", "")) if fm else "harness"
    kind = "panic" if msg.startswith("panic") else "fatal"
    short = re.sub(r'[^A-Za-z0-9]+', '-', msg.split(":", 1)[1].strip())[:40].strip("-")
    return {"key": "%s-%s-%s" % (kind, frame, short), "detail": msg, "device_frame": bool(fm), "stderr": stderr[-6000:]}


def parse_races(logdir):
    """GORACE log files -> list of {key, report}.  Only reports with a wireguard frame count."""
    res, harness_only = [], 0
    for f in sorted(glob.glob(os.path.join(logdir, "race.*"))):
        txt = open(f, errors="replace").read()
        for blk in txt.split("=================="):
            if "WARNING: DATA RACE" not in blk:
                continue
            # first function of each of the two access stacks
            tops = []
            for sec in re.split(r'\n(?=(?:Previous )?(?:[Rr]ead|[Ww]rite|atomic [a-z]+) (?:at|of))', blk):
                if not re.match(r'\s*(?:WARNING: DATA RACE\n)?(?:Previous )?(?:[Rr]ead|[Ww]rite|atomic)', sec):
                    continue
                fr = re.findall(r'^\s{2}(\S+)\(\)\s*$', sec, re.M)
                dev = [x for x in fr if x.startswith("golang.zx2c4.com/wireguard/")]
                tops.append((dev[0] if dev else (fr[0] if fr else "?")).replace("golang.zx2c4.com/wireguard/", ""))
            if "golang.zx2c4.com/wireguard/" not in blk:
                harness_only += 1
                continue
            key = "data-race-" + "+".join(sorted(set(re.sub(r'[^A-Za-z0-9_.]+', '', t) for t in tops[:2])))
            res.append({"key": key, "report": blk.strip()[:6000]})
    return res, harness_only


def run_stress(exe, seed, dur, outdir, race, hang, mode="stress", extra=None):
    env = dict(os.environ)
    if race:
        env["GORACE"] = "log_path=%s halt_on_error=0" % os.path.join(outdir, "race")
    args = [exe, "-mode", mode, "-seed", str(seed), "-dur", str(dur), "-out", outdir, "-hang", str(hang)] + (extra or [])
    t0 = time.time()
    try:
        p = subprocess.run(args, cwd=vlib.ROOT, env=env, stdout=subprocess.PIPE, stderr=subprocess.PIPE, text=True,
                           errors="replace", timeout=dur + 8 * hang + 120)
        rc, so, se = p.returncode, p.stdout, p.stderr
    except subprocess.TimeoutExpired as e:
        rc, so, se = -9, (e.stdout or b"").decode("utf8", "replace") if isinstance(e.stdout, bytes) else (e.stdout or ""), ""
    res = {"seed": seed, "race": race, "mode": mode, "rc": rc, "outdir": outdir, "wall": time.time() - t0, "viol": [], "cases": [], "files": [], "shards": []}
    hm = re.search(r'^HANG (\{.*\})$', so, re.M)
    if hm:
        h = json.loads(hm.group(1))
        plan = None
        try:
            plan = json.load(open(os.path.join(vlib.ROOT, h["plan_file"]) if not os.path.isabs(h["plan_file"]) else h["plan_file"]))
        except Exception:
            pass
        res["viol"].append({"key": h["key"], "kind": "hang", "detail": "call %s of caller %s did not return within %.0f s" % (h["op"], h["caller"], h["waited_s"]),
                            "entries": h["entries"], "stacks_file": h.get("stacks_file"), "input": plan})
    elif rc not in (0, 66):
        cv = crash_violation(se)
        plans = sorted(glob.glob(os.path.join(outdir, "plan_*.json")), key=os.path.getmtime)
        plan = json.load(open(plans[-1])) if plans else None
        if cv:
            res["viol"].append({"key": cv["key"], "kind": "panic", "detail": cv["detail"], "stderr": cv["stderr"], "input": plan})
        else:
            res["viol"].append({"key": "harness-exit-%s" % rc, "kind": "error", "detail": "stress child exited %s" % rc, "stderr": se[-3000:], "stdout": so[-1000:], "input": plan})
    cj = os.path.join(outdir, "cases.json")
    if os.path.exists(cj):
        meta = json.load(open(cj))
        res["cases"] = meta["cases"]
        res["shards"] = meta["shards"]
        res["files"] = [os.path.join(outdir, s["file"]) for s in meta["shards"]]
        for c in meta["cases"]:
            for v in c.get("violations") or []:
                res["viol"].append({"key": v["key"], "kind": "census", "detail": v["detail"], "frames": v.get("frames"), "input": c["plan"]})
    if race:
        rs, honly = parse_races(outdir)
        res["harness_only_races"] = honly
        seen = set()
        for r in rs:
            if r["key"] in seen:
                continue
            seen.add(r["key"])
            res["viol"].append({"key": r["key"], "kind": "race", "detail": "race detector report", "report": r["report"], "input": {"seed": seed, "mode": mode, "note": "re-run: out/bin/c13-race -mode stress -seed %d" % seed}})
    return res


CLAUSES = {1: "bind opened while open (two Opens without a Close)", 2: "Open or accepted Send after a clean Down returned (before the next Up was invoked)",
           3: "Open or accepted Send after Close returned", 4: "bind still open when a clean Down / Close returned",
           5: "Open not directly preceded by Close (model shape)",
           6: "INFORMATIONAL: a peer observed running after a clean Down returned (no Up / UAPI peer section since its invocation) or after Close returned",
           8: "a bind.Send call that started on the open bind is still in progress when a clean Down / Close returned",
           9: "bind.Close called while a bind.Send that started on the open bind is in progress (model shape: net.RLock is held across the send)",
           7: "a RoutineReceiveIncoming goroutine still parked in its loop after a clean Down returned (before the next Up was invoked) or after Close returned"}


def judge_traces(results):
    """coqc the case files of all stress runs; returns (failures, stats, nontrivial flags per run)."""
    files = [f for r in results for f in r["files"]]
    if not files:
        return [], [0] * 10, {}
    outs = vlib.run_case_files(files)
    fails, tot, nts = [], [0] * 10, {}
    for r in results:
        flags = []
        for s, f in zip(r["shards"], r["files"]):
            o = outs[f]
            for (idx, kind, code) in vlib.parse_n_tuples(vlib.coq_value(o, "bad")):
                fails.append({"run": r["outdir"], "case": s["first"] + idx, "kind": kind, "clause": code // 1000000, "pos": code % 1000000,
                              "plan": r["cases"][s["first"] + idx]["plan"], "trace": r["cases"][s["first"] + idx]["trace"]})
            st = vlib.parse_n_list(vlib.coq_value(o, "st"))
            tot = [a + b for a, b in zip(tot, st)]
            flags += vlib.parse_n_list(vlib.coq_value(o, "nt"))
        nts[r["outdir"]] = flags
    return fails, tot, nts


def check(tier, seed):
    t0 = time.time()
    known = vlib.known_findings(PID)
    broken, cmds, theorems = [], [], []
    viols = []          # dicts with key, kind, detail, input...
    # ---- 1. constants + Coq
    coq_ok = True
    try:
        vlib.gen_constants()
        cmd, _ = vlib.coq_make(["theories/Lifecycle/Check.vo"])
        cmds.append(cmd)
    except CheckError as e:
        broken.append(e)
        coq_ok = False
    try:
        cmd, _ = vlib.coq_make(["theories/Props/C13.vo"])
        cmds.append(cmd)
        theorems, closed, _ = vlib.props_obligations(PID)
    except CheckError as e:
        broken.append(e)
        src = os.path.join(vlib.COQ, "theories", "Props", PID + ".v")
        theorems = re.findall(r'^\s*(?:Theorem|Example)\s+(\w+)', open(src).read(), re.M)
    # ---- 2. harness builds
    try:
        exe = vlib.build_go("c13")
        exe_race = vlib.build_go("c13", race=True)
    except CheckError as e:
        print("ERROR " + str(e)[:3000])
        return 2
    # ---- 3. replays + stress, all in parallel
    quick = tier == "quick"
    dur = 25 if quick else 360
    plain_seeds = [seed * 100 + i for i in range(3 if quick else 6)]
    race_seeds = [seed * 100 + 50 + i for i in range(2 if quick else 4)]
    jobs = []
    with ThreadPoolExecutor(max_workers=24) as ex:
        lk_f = ex.submit(lock_edges)
        rep_f = {m: ex.submit(run_replay, m, exe) for m in REPLAYS}
        # thorough: longer histories (6 callers x ~28 ops) instead of ever more short rounds
        shape = [] if quick else ["-callers", "6", "-ops", "28"]
        for s in plain_seeds:
            jobs.append(ex.submit(run_stress, exe, s, dur, _out("stress_%d" % s), False, 10, "stress",
                                  shape + (["-corpus", os.path.join(vlib.ROOT, "corpus", PID)] if s == plain_seeds[0] else [])))
        for s in race_seeds:
            jobs.append(ex.submit(run_stress, exe_race, s, dur, _out("race_%d" % s), True, 20, "stress", shape))
        fam = []
        if not quick:
            for s in (seed * 100 + 90, seed * 100 + 91):
                fam.append(ex.submit(run_stress, exe, s, 45, _out("family_%d" % s), False, 8, "family"))
        lk = lk_f.result()
        replays = {m: f.result() for m, f in rep_f.items()}
        results = [j.result() for j in jobs]
        family = [j.result() for j in fam]
    # ---- 4. replay outcomes
    replay_summary = {}
    for m in REPLAYS:
        r = replays[m]
        if r.get("hang") and "still changing" in (r.get("note") or ""):
            # not a stable blocked set after 30 s of waiting: no verdict from this replay
            replay_summary[m] = "inconclusive: " + r["note"]
        elif r.get("hang"):
            if m in ("collide", "close2", "closefault", "tunfail", "bindfault", "sendinflight", "fullqueue") and r["key"].startswith("hang-"):
                # a must-hold scenario whose calls do not return: name the clause ("every call returns")
                r["key"] = "%s-call-never-returns-%s" % (m, r["key"][5:])
            replay_summary[m] = r["key"]
            viols.append({"key": r["key"], "kind": "deadlock-replay", "detail": "deterministic replay %s deadlocks the real device: %s" % (m, REPLAY_DOC[m]),
                          "entries": r.get("entries"), "steps": r.get("steps"), "input": {"replay_mode": m, "cmd": "out/bin/c13 -mode %s -stacks" % m}})
            if m == "collide":
                viols[-1]["detail"] = "scenario that returns on the reference tree hangs: " + REPLAY_DOC[m]
        elif r.get("violation"):
            replay_summary[m] = r["key"]
            viols.append({"key": r["key"], "kind": "scenario", "detail": "scenario %s: %s (%s)" % (m, r.get("detail"), REPLAY_DOC[m]),
                          "steps": r.get("steps"), "input": {"replay_mode": m, "cmd": "out/bin/c13 -mode %s" % m}})
        elif "error" in r:
            cv = crash_violation(r.get("stderr", ""))
            if cv and cv["device_frame"]:
                cv["detail"] += " (in scenario %s: %s)" % (m, REPLAY_DOC[m])
                replay_summary[m] = cv["key"]
                viols.append({"key": cv["key"], "kind": "panic", "detail": cv["detail"], "stderr": cv["stderr"], "input": {"replay_mode": m}})
            else:
                replay_summary[m] = "inconclusive: " + r["error"]
            if r.get("note"):
                replay_summary[m] += " (" + r["note"] + ")"
                vlib.log("replay %s inconclusive: %s %s" % (m, r["error"], r.get("stderr", "")[-500:]))
        else:
            replay_summary[m] = "no hang (all calls returned)"
    # ---- 5. stress outcomes
    for r in results:
        viols += r["viol"]
    family_summary = []
    for r in family:
        for v in r["viol"]:
            family_summary.append({"seed": r["seed"], "key": v["key"], "after_s": round(r["wall"], 1)})
            v = dict(v)
            v["detail"] = "family run (excluded overlaps allowed): " + v["detail"]
            viols.append(v)
    # ---- 5b. lock-order edges of the source: a new inversion breaks an obligation -> directed search
    directed = []
    if not lk["ok"]:
        what = "; ".join("%s in %s at %s%s" % (d["edge"], d["func"], d["at"], (" via " + d["via"]) if d["via"] else "") for d in lk.get("new_detail", [])) or (lk.get("error") or "?")
        broken.append(CheckError("T.C13.lock-order-edges", "the source has a lock-order edge that is neither rank-increasing nor a listed inversion, or a bind call outside the net lock: " + what))
        if lk.get("new_detail"):
            fo = ",".join(focus_ops(lk))
            ddur = 40 if quick else 150
            vlib.log("new lock-order inversion in the source (%s): directed search with -focus %s" % (what, fo))
            with ThreadPoolExecutor(max_workers=8) as ex:
                dj = [ex.submit(run_stress, exe, seed * 100 + 70 + i, ddur, _out("directed_%d" % (seed * 100 + 70 + i)), False, 8,
                                "stress" if i < 3 else "family-a", ["-focus", fo]) for i in range(5)]
                directed = [j.result() for j in dj]
            for r in directed:
                for v in r["viol"]:
                    v = dict(v)
                    v["detail"] = "directed search after a new lock-order inversion in the source (%s): %s" % (what, v["detail"])
                    v["lock_edges"] = lk["new_detail"]
                    viols.append(v)
    # ---- 6. traces judged in Coq
    fails, st, nts = [], [0] * 10, {}
    if coq_ok:
        try:
            fails, st, nts = judge_traces(results + family + directed)
        except CheckError as e:
            broken.append(e)
    for f in fails:
        if f["kind"] == 2:
            viols.append({"key": "trace-clause-%d" % f["clause"], "kind": "trace", "detail": CLAUSES.get(f["clause"], "?") + " at event %d" % f["pos"],
                          "input": f["plan"], "trace": f["trace"]})
    mism = [f for f in fails if f["kind"] == 1]
    info6 = [f for f in fails if f["kind"] == 3]     # peers seen running after Down: recorded, never a violation
    # ---- 7. report
    infra = [v for v in viols if v["kind"] == "error"]
    viols = [v for v in viols if v["kind"] != "error"]
    nviol, reported = 0, set()
    for v in viols:
        if v["key"] in reported:
            continue
        reported.add(v["key"])
        if v["key"] in known:
            vlib.emit_known(PID, "key=%s %s" % (v["key"], known[v["key"]]))
            continue
        if nviol >= 10:
            continue
        path = vlib.write_replay(PID, seed, dict(v, property=PID, signature=v["key"]), tag="_%d" % nviol)
        vlib.emit_violation(PID, path)
        nviol += 1
    if nviol == 0 and (broken or mism):
        obl = [b.obligation for b in broken] + (["K.C13.bind-log-shape"] if mism else [])
        path = vlib.write_replay(PID, seed, {"property": PID, "kind": "obligation no longer checks; no failing input found", "obligations": obl,
                                             "details": [b.detail[-1500:] for b in broken], "first_mismatch": mism[0] if mism else None,
                                             "new_lock_order_edges": lk.get("new_detail"), "directed_search": [{"seed": r["seed"], "mode": r["mode"], "rounds": len(r["cases"]), "rc": r["rc"]} for r in directed],
                                             "input": mism[0]["plan"] if mism else None}, tag="_nf")
        vlib.emit_violation(PID, path, no_input=True)
        nviol += 1
    # ---- 8. evidence
    all_cases = [(r, i, c) for r in results + family + directed for i, c in enumerate(r["cases"])]
    nontriv = []
    for r, i, c in all_cases:
        fl = nts.get(r["outdir"], [])
        if i < len(fl) and fl[i] == 1:
            nontriv.append(c["plan"]["callers"])
    opsum = {}
    for r, i, c in all_cases:
        for k, n in c["stats"].items():
            opsum[k] = opsum.get(k, 0) + n
    k_broken = set()
    for v in viols:
        if v["key"] in known:
            continue
        k_broken.add({"hang": 1, "race": 2, "panic": 3, "census": 4, "deadlock-replay": 5, "scenario": 5, "trace": 0, "error": 3}.get(v["kind"], 0))
    if mism:
        k_broken.add(0)
    theorems = theorems + RUN_THEOREMS
    obligations = len(theorems) + len(K_NAMES)
    t_broken = [b for b in broken if b.obligation.startswith(("T.", "G."))]
    if not t_broken:
        t_ok = len(theorems)
    elif all(b.obligation == "T.C13.lock-order-edges" for b in t_broken):
        t_ok = len(theorems) - len(RUN_THEOREMS)
    else:
        t_ok = 0
    discharged = t_ok + (len(K_NAMES) - len(k_broken))
    names = ["events", "opens", "closes", "send_runs", "refused_runs", "up_calls", "down_calls", "quiet_windows", "close_returns", "nontrivial_rounds"]
    samples = []
    for r, i, c in all_cases[:2]:
        samples.append({"plan": {"callers": [[(o["k"], o.get("p", 0), o.get("a", 0)) for o in cl][:10] for cl in c["plan"]["callers"]],
                                 "respond": c["plan"].get("respond"), "gomaxprocs": c["plan"]["gomaxprocs"]},
                        "trace_codes_first_40": c["trace"][:40], "stats": c["stats"]})
    samples.append({"deadlock_replays": replay_summary})
    cov = {
        "explanation": ("hybrid: (a) Coq theorems for ALL interleavings of the lifecycle automaton (no double open, closed absorbing, after Down/Close bind closed "
                        "and peers stopped) and for the lock discipline (rank-respecting programs never deadlock; the device's programs minus the listed "
                        "inversions respect one order; each listed inversion has an explicit deadlock schedule) -- these are statements about the MODELS; "
                        "(b) trace validation: the bind log + call log of every stress round on the real device is judged inside Coq by the monitor; "
                        "(c) runtime observation, not proof: hangs (watchdog), data races (-race), panics, goroutine census after Close; "
                        "(d) every deadlock schedule is replayed deterministically on the real code"),
        "obligations": obligations, "discharged": max(discharged, 0),
        "obligation_names": theorems + ["K.C13." + k for k in K_NAMES],
        "checker_cmd": " ; ".join(cmds + ["coqc -Q coq/theories WG theories/Props/C13.v", "coqc -Q coq/theories WG out/C13/*/cases_C13_*.v (vm_compute)",
                                          "out/bin/c13locks -repo <tree> -v coq/theories/Gen/LockEdges.v ; coqc out/C13/lockedges/LockEdgesRun.v", "out/bin/c13 -mode f3a|f3b|f3c|f3d|upkey|collide|close2|closefault|tunfail|bindfault", "out/bin/c13[-race] -mode stress -seed S -dur %d" % dur]),
        "trusted_base": vlib.TRUSTED_BASE_COMMON + [
            "the lock programs and the automaton are hand-written from device.go/peer.go/uapi.go/send.go/receive.go/timers.go/noise-protocol.go; one peer; tied to the code by the replays (each model deadlock reproduces) and by the trace monitor",
            "Go race detector, runtime.Stack parsing (hang signatures, census), sim.Bind's own log and global sequence numbers",
            "sequentially consistent atomic steps at the granularity written in the models",
            "the lock-edge extractor harness/cmd/c13locks (go/parser + go/types over package device of the tree under test): class mapping by owner type and field, lexical held sets, static call graph, joins via WaitGroup Wait/Done; its blind spots are listed in notes/C13.md"],
        "evaluations": len(all_cases), "distinct_nontrivial": vlib.distinct_count(nontriv), "rule": RULE, "samples": samples,
        "traces_validated_against_impl": len(all_cases) if coq_ok and not any(b.obligation.startswith("K.casefile") for b in broken) else 0,
        "trace_stats": dict(zip(names, st)), "op_counts": opsum,
        "stress_processes": [{"seed": r["seed"], "race": r["race"], "mode": r["mode"], "rounds": len(r["cases"]), "rc": r["rc"], "wall_s": round(r["wall"], 1),
                              "harness_only_races": r.get("harness_only_races", 0)} for r in results + family + directed],
        "deadlock_replays": replay_summary, "family_runs": family_summary,
        "lock_edges": {k: lk.get(k) for k in ("ok", "edges", "functions", "type_errors_ignored", "unmapped_lock_classes", "new_detail", "gone",
                                               "model_extra", "code_extra", "listed_inversions_seen", "bind_calls", "error", "cmd")},
        "peer_running_after_down_observations": {"rounds": len({(f["run"], f["case"]) for f in info6}), "events": len(info6),
                                                 "note": "informational (Coq: C13_peer_running_after_down_reachable; a Down on an already-down device does not stop a peer started by the handlePostConfig race); the property text does not demand stopped peers after Down"},
        "known_findings_seen": sorted(k for k in reported if k in known), "violation_keys": sorted(k for k in reported if k not in known),
        "repo_head": vlib.repo_head(), "broken_obligations": [b.obligation for b in broken] + (["K.C13.bind-log-shape"] if mism else []),
    }
    # case files of quiet runs are not kept (a thorough run writes ~1 GB of them)
    for r in results + family + directed:
        if not r["viol"] and not any(f["run"] == r["outdir"] and f["kind"] != 3 for f in fails):
            shutil.rmtree(r["outdir"], ignore_errors=True)
    vlib.write_evidence(PID, tier, seed, cov, time.time() - t0, nviol,
                        ["models (automaton, lock programs) are hand-written abstractions of the Go code with one peer; theorems speak about them",
                         "data races, panics, goroutine termination and 'every call returns' are observed on the explored schedules only",
                         "random plans exclude the overlaps behind the listed lock-order findings (see rule); those are exercised by the deterministic replays",
                         "a call is a hang when it has not returned after 10 s (20 s under -race) AND two goroutine dumps 2 s apart show the same blocked set with nothing running inside the device"],
                        level="other")
    if nviol:
        return 1
    if infra:
        # a stress child died without a panic / fatal error of the device in its output: infrastructure, not a verdict
        print("ERROR C13 stress child failed: " + json.dumps([{k: v.get(k) for k in ("key", "detail", "stderr")} for v in infra])[:3000])
        return 2
    return 0


def replay(path):
    obj = json.load(open(path))
    exe = vlib.build_go("c13")
    inp = obj.get("input") or {}
    if isinstance(inp, dict) and inp.get("replay_mode"):
        r = run_replay(inp["replay_mode"], exe)
        print(json.dumps({k: v for k, v in r.items() if k != "stacks"}))
        if r.get("hang") or r.get("violation") or (r.get("error") and crash_violation(r.get("stderr", ""))):
            print("VIOLATION property=C13 replay=%s" % path)
            return 1
        return 0
    if not (isinstance(inp, dict) and inp.get("callers")):
        print("replay file has no plan; see its 'detail'")
        return 0
    race = obj.get("kind") == "race"
    if race:
        exe = vlib.build_go("c13", race=True)
    d = _out("replay")
    pf = os.path.join(d, "in.json")
    json.dump({"plan": inp}, open(pf, "w"))
    res = run_stress(exe, 0, 0, d, race, 20 if race else 10, "stress", ["-replay", pf, "-reps", "150"])
    vlib.gen_constants()
    vlib.coq_make(["theories/Lifecycle/Check.vo"])
    fails, st, _ = judge_traces([res])
    keys = sorted({v["key"] for v in res["viol"]} | {"trace-clause-%d" % f["clause"] for f in fails if f["kind"] == 2})
    print(json.dumps({"reruns": len(res["cases"]), "keys": keys}))
    if keys:
        print("VIOLATION property=C13 replay=%s" % path)
        return 1
    return 0
