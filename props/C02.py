# C02 — inbound acceptance: slice model of the receive path (Coq) + co-simulation of the real device
# with authenticated-but-hostile transport traffic built by the harness's own protocol implementation.
import base64, json, os
import vlib
from vlib import CheckError

STAT_NAMES = ["not_transport_or_short", "unknown_index", "keypair_expired", "does_not_authenticate",
              "replayed_or_behind_window", "keepalive", "ipv4_length_or_header_refused",
              "ipv6_length_or_header_refused", "other_version_nibble", "source_not_allowed", "written",
              "handshakes", "age_shifts", "unconfirmed_handshakes", "restarts", "accepted_under_offered_key", "peers_removed"]


def _plain(d):
    return base64.b64decode(d.get("plain") or "")


def f1_hit(ev):
    """The step shows the IPv6 payload-length wrap: a write equal to the first (payload+40-65536) bytes."""
    writes = [base64.b64decode(w) for w in (ev.get("writes") or [])]
    for d in ev.get("dgs") or []:
        if d.get("raw"):
            continue
        p = _plain(d)
        if len(p) >= 40 and p[0] >> 4 == 6:
            pl = (p[4] << 8) | p[5]
            if pl >= 65496:
                runt = p[:pl + 40 - 65536]
                if runt in writes:
                    return True
    return False


class Prop:
    pid = "C02"
    vo_check = ["theories/Inbound/Check.vo"]
    vo_props = ["theories/Props/C02.vo"]
    k_names = ["tun_writes+rx_bytes(device receive path under co-simulation == Inbound.Model.step)"]
    rule = ("co-simulation scenarios (1-3 peers, nested/overlapping v4+v6 allowed-IPs, bind batch 1..128): handshakes by the "
            "harness's own initiator, then batches of transport datagrams sealed by it whose inner packet is hostile: every "
            "version nibble, IPv4 total-length and IPv6 payload-length on every boundary, truncated headers, 0..15 bytes of "
            "(non-zero) padding, sources on every prefix boundary incl. another peer's, wrong index / key / tag / counter field, "
            "replayed, behind-window and over-limit counters, rotated-out and aged-out sessions; observables: TUN writes (bytes) "
            "and rx_bytes deltas; non-trivial = scenario with at least one TUN write and at least one authentic datagram "
            "that was not written; distinct by content hash.  IPv6 payload lengths >= 65496 only in the dedicated F1 scenario")
    assumptions = ["a datagram's authenticity is decided from how the harness constructed it (session key serial, tampering); "
                   "AEAD is assumed to open iff key and nonce match and nothing was altered",
                   "replay filter modelled by its set specification (C05 proves the ring refines it)",
                   "per-peer order of TUN writes is compared; the order between different peers' writes is not determined "
                   "(one receiver goroutine per peer) and any interleaving is accepted",
                   "keypair ages moved with VerifShiftKeypairAges in steps of 100 s (far from the 180 s boundary); one dedicated scenario "
                   "crosses the boundary in real time (shift 179 s, accept, 2 s idle socket, refuse): the model takes the age at arrival time, "
                   "margins of 1 s, scenario discarded if the machine is too loaded to keep them"]
    trusted_extra = ["harness/ref (own WireGuard implementation on x/crypto) builds the hostile traffic",
                     "DataPath/Pack.v + Base/Ints.v: primitive Uint63 literals carry packet bytes in generated case files only",
                     "DataPath/Table.v: duplicate prefixes resolved to the last assignment (C08's semantics) before the specification is evaluated"]

    def __init__(self):
        self.dir = os.path.join(vlib.OUT, "C02")

    def _run_go(self, args, d):
        exe = vlib.build_go("c02")
        rc, o = vlib.sh([exe] + args, cwd=vlib.ROOT, timeout=1800)
        if rc != 0:
            raise CheckError("K.C02.driver", o[-3000:])
        meta = json.load(open(os.path.join(d, "cases.json")))
        files = [os.path.join(d, s["file"]) for s in meta["shards"]]
        return files, meta

    def generate(self, seed, tier, mult):
        n = min((170 if tier == "quick" else 1500) * mult, 4000)   # the 10x search budget is capped (co-simulation + 64 KiB packets)
        shards = 16 if tier == "quick" else 48
        args = ["-seed", str(seed), "-n", str(n), "-shards", str(shards), "-out", self.dir,
                "-corpus", os.path.join(vlib.ROOT, "corpus", "C02")]
        if tier != "quick":
            args.append("-big")
        files, meta = self._run_go(args, self.dir)
        self.shards = meta["shards"]
        self.extra_coverage = {"discarded_scenarios": meta.get("discarded", 0), "crashed_scenarios": meta.get("crashed", 0),
                               "churn_datagrams_judged": sum((c.get("churn") or {}).get("datagrams", 0) for c in meta["cases"]),
                               "churn_reconfigurations": sum((c.get("churn") or {}).get("reconfigs", 0) for c in meta["cases"]),
                               "churn_leaked": sum((c.get("churn") or {}).get("leaked", 0) for c in meta["cases"]),
                               "churn_honest_lost": sum((c.get("churn") or {}).get("lost", 0) for c in meta["cases"]),
                               "cookie_load_scenarios": sum(1 for c in meta["cases"] if any(e.get("flood") for e in c.get("evs") or [])),
                               "cookie_replies_provoked": sum(e.get("cookies", 0) for c in meta["cases"] for e in c.get("evs") or []),
                               "junk_datagrams_during_tun_writes": sum(e.get("junk_sent", 0) for c in meta["cases"] for e in c.get("evs") or [])}
        return files, meta["cases"]

    def _fails(self, shards, files, outputs):
        res = []
        for s, f in zip(shards, files):
            for (idx, kind, pos) in vlib.parse_n_tuples(vlib.coq_value(outputs[f], "bad")):
                res.append({"case": s["first"] + idx, "kind": kind, "pos": pos})
        return res

    def failures(self, outputs, files, cases):
        return self._fails(self.shards, files, outputs)

    def stats(self, outputs):
        tot = [0] * len(STAT_NAMES)
        for o in outputs.values():
            v = vlib.parse_n_list(vlib.coq_value(o, "st"))
            tot = [a + b for a, b in zip(tot, v)]
        return dict(zip(STAT_NAMES, tot))

    def run_cases(self, cases):
        d = os.path.join(self.dir, "rerun")
        os.makedirs(d, exist_ok=True)
        inp = os.path.join(d, "in.json")
        json.dump(cases, open(inp, "w"))
        files, meta = self._run_go(["-replay", inp, "-out", d], d)
        outs = vlib.run_case_files(files)
        self.last_rerun = meta["cases"]
        fs = self._fails(meta["shards"], files, outs)
        # a re-run the harness discarded (did not settle, timing margins missed) is not a verdict
        fs = [f for f in fs if not meta["cases"][f["case"]].get("discarded")]
        # hand the re-run's observations and failing positions back on the candidate objects, so that
        # signature() of a shrunk case looks at the shrunk case's own failing step
        if len(cases) == len(meta["cases"]):
            for i, c in enumerate(cases):
                pos = {str(f["kind"]): f["pos"] for f in fs if f["case"] == i}
                c.clear()
                c.update(meta["cases"][i])
                c["_pos"] = pos
        return fs

    def shrink_candidates(self, case):
        if case.get("kind") == "crashed":
            return
        evs = case["evs"]
        if (case.get("gen") or "").startswith("churn-"):
            return   # a race between the receive path and the UAPI: the harness regenerates the flood, nothing to shrink
        if any(e.get("flood") for e in evs):
            # a buffer-sharing failure after cookie load is scheduling dependent: delta debugging on it only burns time.
            # Keep the scenario up to the failing step.
            pos = (case.get("_pos") or {}).get("2")
            if pos is not None and pos + 1 < len(evs) and not case.get("_cut"):
                c = dict(case)
                c["evs"] = evs[:pos + 1]
                c["_cut"] = True
                yield c
            return
        free = [i for i, e in enumerate(evs) if e["k"] not in ("hs", "hsu", "remove", "reconf")]
        # drop runs of non-handshake events (handshakes define the session serials)
        chunk = max(len(free) // 2, 1)
        seen = 0
        while chunk >= 1 and seen < 60:
            for s in range(0, len(free), chunk):
                drop = set(free[s:s + chunk])
                if drop and len(drop) < len(evs):
                    c = dict(case)
                    c["evs"] = [e for i, e in enumerate(evs) if i not in drop]
                    seen += 1
                    yield c
            if chunk == 1:
                break
            chunk //= 2
        # thin out the datagrams of each batch
        for i, e in enumerate(evs):
            dgs = e.get("dgs") or []
            if len(dgs) > 1:
                for part in (dgs[:len(dgs) // 2], dgs[len(dgs) // 2:]) if len(dgs) > 2 else ([dgs[0]], [dgs[1]]):
                    c = dict(case)
                    ne = dict(e)
                    ne["dgs"] = part
                    c["evs"] = evs[:i] + [ne] + evs[i + 1:]
                    yield c

    def signature(self, case, f):
        if case.get("kind") == "crashed":
            return "device-crashed"
        evs = case["evs"]
        if (case.get("gen") or "").startswith("churn-") and (case.get("churn") or {}).get("leaked"):
            return "source-owned-by-another-peers-longer-prefix-written-during-reconfiguration"

        pos = (case.get("_pos") or {}).get(str(f.get("kind")), f.get("pos", 0))
        # an "idle" event is written as one age step per peer in the case file: map the step back to the event
        k = 0
        for i, e in enumerate(evs):
            width = case["npeers"] if e["k"] == "idle" else 1
            if pos < k + width:
                pos = i
                break
            k += width
        else:
            pos = len(evs)
        if any(f1_hit(e) for e in evs):
            return "ipv6-payload-length-uint16-wrap"
        notes = set()
        if pos < len(evs):
            for d in evs[pos].get("dgs") or []:
                notes.add((d.get("note") or ("raw" if d.get("raw") else "dg")).split("/")[-1])
                for tag in ("pre-restart", "removed-peer", "late-confirmed-key-expired"):
                    if (d.get("note") or "").startswith(tag):
                        notes.add(tag)
        if pos < len(evs) and evs[pos].get("junk") and any(bytes([10, 66, 66, 66]) in base64.b64decode(w) or b"\x66" * 8 in base64.b64decode(w)
                                                            for w in evs[pos].get("writes") or []):
            return "unauthenticated-bytes-on-tun-after-cookie-load"
        if pos > 0 and pos < len(evs) and any(e.get("tun_fail") for e in evs[:pos]) and evs[pos].get("writes"):
            lost = {d.get("plain") for e in evs[:pos] if e.get("tun_fail") for d in e.get("dgs") or []}
            ws = [base64.b64decode(w) for w in evs[pos].get("writes") or []]
            if any(w and any(base64.b64decode(p or "")[:len(w)] == w for p in lost) for w in ws):
                return "packet-of-a-failed-tun-write-written-with-a-later-batch"
        if pos < len(evs) and any(e["k"] == "reconf" for e in evs[:pos]) and "removed-peer" not in notes:
            return "tun-write-differs-from-the-configuration-the-set-operation-denotes:" + ",".join(sorted(notes))[:60]
        if "removed-peer" in notes and pos < len(evs) and evs[pos].get("writes"):
            return "session-of-removed-peer-accepted"
        if "late-confirmed-key-expired" in notes and pos < len(evs) and evs[pos].get("writes"):
            return "key-older-than-RejectAfterTime-accepted-after-late-confirmation"
        if any(n.startswith("pre-restart") for n in notes) and pos < len(evs) and evs[pos].get("writes"):
            return "key-from-before-restart-accepted"
        if any("after-idle-across-expiry" in n for n in notes) and pos < len(evs) and evs[pos].get("writes"):
            return "key-older-than-RejectAfterTime-accepted-after-idle"
        return "tun-write-differs-from-permitted:" + ",".join(sorted(notes))[:80]

    def nontrivial(self, c):
        if c.get("kind") == "crashed":
            return False
        writes = sum(len(e.get("writes") or []) for e in c["evs"])
        credited = 0
        for e in c["evs"]:
            for i, x in enumerate(e.get("rx") or []):
                if x:
                    credited += 1
        ndg = sum(len(e.get("dgs") or []) for e in c["evs"])
        return writes > 0 and ndg > writes and credited > 0

    def sample(self, c):
        if c.get("kind") == "crashed":
            return {"gen": c.get("gen"), "crash": (c.get("crash") or "")[-300:]}
        out = {"gen": c.get("gen"), "npeers": c["npeers"], "bind_batch": c.get("bind_batch"),
               "table": ["%d:%s/%d->%d" % (e["fam"], base64.b64decode(e["bits"]).hex(), e["len"], e["owner"]) for e in c["table"][:6]],
               "events": []}
        for e in c["evs"][:6]:
            if e["k"] == "dg":
                out["events"].append({"dg": [(d.get("note") or "raw") + ":" + str(len(_plain(d))) for d in (e.get("dgs") or [])[:6]],
                                      "tun_writes": [len(base64.b64decode(w)) for w in e.get("writes") or []][:6], "rx": e.get("rx")})
            else:
                out["events"].append({e["k"]: e.get("peer", 0), "secs": e.get("secs"), "ms": e.get("ms")})
        return out


def check(tier, seed):
    return vlib.engine(Prop(), tier, seed)


def replay(path):
    obj = json.load(open(path))
    p = Prop()
    case = obj.get("input") or obj
    if isinstance(case, list):
        case = case[0]
    fs = p.run_cases([case])
    c = p.last_rerun[0]
    if c.get("kind") == "crashed":
        print(json.dumps({"failures": fs, "crash": c.get("crash")}))
        print("VIOLATION property=C02 replay=%s no-failing-input-found" % path)
        return 1
    obs = [{"step": i, "tun_writes": [base64.b64decode(w).hex() if len(base64.b64decode(w)) <= 64 else len(base64.b64decode(w))
                                      for w in e.get("writes") or []], "rx": e.get("rx")}
           for i, e in enumerate(c["evs"]) if e["k"] == "dg"]
    print(json.dumps({"failures": fs, "signature": p.signature(c, fs[0]) if fs else None, "observed": obs}))
    if any(f["kind"] == 2 for f in fs):
        print("VIOLATION property=C02 replay=%s" % path)
        return 1
    return 0
